"""C20 - Damaged time-zone data is rejected with the documented error, promptly.

Decided statically:
  R20.1  exception effects: the escape set of every load/list/fetch entry point is {InvalidPyodaDataError} (plus symbols excluded
         with a reason) - computed over the resolved call graph with try/except subtraction (E4).
  R20.1b the source never hands None to DateTimeZoneCache (so its source-contract errors are unreachable).
  R20.2  progress: every loop of the decoding code consumes input (or leaves) on every iteration, or is bounded by a container.
  R20.3  allocation: no read/allocation sized by an untrusted count on the caller's stream.
Not decided: wall-clock time, behaviour after a successful load of altered but well-formed data.
"""
from __future__ import annotations

import ast
from typing import Any

from ..core import Ctx, RuleResult, rule
from ..exc import ExcAnalysis, ExcConfig, _terminates, facts_at
from ..kit import own_nodes, sub_nodes
from ..model import AnalysisError, Func, mangle, unparse

ALLOWED = {"InvalidPyodaDataError"}

ENTRIES = [
    "TzdbDateTimeZoneSource.from_stream",
    "TzdbDateTimeZoneSource.get_ids",
    "TzdbDateTimeZoneSource.for_id",
    "TzdbDateTimeZoneSource.version_id",
    "DateTimeZoneCache.__init__",
    "DateTimeZoneCache.ids",
    "DateTimeZoneCache.__getitem__",
    "DateTimeZoneCache.get_zone_or_none",
]

EXCLUDED_FUNCS = {
    "_Preconditions._check_not_null": "TypeError for a None argument: the property's inputs are streams and ids taken from get_ids(), never None",
    "_FixedDateTimeZone._get_fixed_zone_or_null": "fallback for ids the source does not list ('UTC+hh:mm'); the property fetches ids listed by the source, and that text parsing never raises is C08's claim",
}

EXCLUDED_ORIGINS = {
    ("TzdbDateTimeZoneSource.for_id", "ValueError"): "documented lookup error for an id that is not in the source; ids come from get_ids()",
    ("DateTimeZoneCache.__getitem__", "DateTimeZoneNotFoundError"): "documented lookup error for an unknown id",
    ("DateTimeZoneCache.__init__", "InvalidDateTimeZoneSourceError"): "source-contract error (None version / ids); unreachable for TzdbDateTimeZoneSource - decided by R20.1b",
    ("DateTimeZoneCache.__get_zone_from_source_or_none", "InvalidDateTimeZoneSourceError"): "source-contract error (for_id returned None); unreachable for TzdbDateTimeZoneSource - decided by R20.1b",
}

BOUNDARIES = ["_TzdbStreamData._from_stream", "_TzdbStreamData.create_zone"]


def _cfg(**kw: Any) -> ExcConfig:
    return ExcConfig(excluded_funcs=dict(EXCLUDED_FUNCS), excluded_origins=dict(EXCLUDED_ORIGINS), **kw)


def _analysis(ctx: Ctx) -> ExcAnalysis:
    if "c20.exc" not in ctx.cache:
        ctx.cache["c20.exc"] = ExcAnalysis(ctx, _cfg())
    return ctx.cache["c20.exc"]


@rule("C20")
def r20_1_escape_set(ctx: Ctx) -> RuleResult:
    rr = RuleResult("R20.1", "escape set of from_stream / get_ids / for_id / DateTimeZoneCache entry points is {InvalidPyodaDataError} (call-graph exception effects with try/except subtraction)", min_instances=30)
    M = ctx.M
    A = _analysis(ctx)
    seen_allowed: set[tuple[str, str]] = set()
    for q in ENTRIES:
        f = M.func(q, required=False)
        if f is None:
            raise AnalysisError(f"entry point {q} vanished")
        escs = A.escapes(f)
        for e in escs:
            rr.inst()
            if e.exc in ALLOWED or any(A.H.is_sub(e.exc, a) for a in ALLOWED):
                seen_allowed.add((e.fn, e.what))
                rr.ok()
                continue
            rr.fail(q, f"{e.exc} may escape: {e.what} in {e.fn}", e.loc, path=" > ".join((*e.chain, e.fn)), kind=e.kind)
        rr.states += 1
    reach = {id(g): g for q in ENTRIES for g in A.reachable(M.func(q))}
    rr.states += len(reach)
    # resolution must be complete inside the decode region: an unresolved call could hide a raising callee
    for (fq, text), loc in sorted(A.unresolved.items()):
        rr.inst()
        rr.fail(fq, f"call not resolved by the analysis: {text}", loc, note="exception effects unknown")
    # what the conversion boundaries actually absorb (inventory; proves the boundaries are not vacuous)
    B = ExcAnalysis(ctx, _cfg(transparent_try=set(BOUNDARIES)))
    absorbed: dict[str, int] = {}
    for q in BOUNDARIES:
        f = M.func(q, required=False)
        if f is None:
            raise AnalysisError(f"conversion boundary {q} vanished")
        for e in B.escapes(f):
            if e.exc not in ALLOWED:
                absorbed[e.exc] = absorbed.get(e.exc, 0) + 1
    rr.notes.append(f"reachable functions analysed: {len(reach)}; distinct InvalidPyodaDataError origins escaping: {len(seen_allowed)}")
    rr.notes.append("foreign raising constructs inside the two conversion boundaries (absorbed by their handlers), by class: " + ", ".join(f"{k}={v}" for k, v in sorted(absorbed.items())))
    rr.notes.append(f"library operations modelled: {A.ops_seen}, discharged by a dominating guard: {len(A.discharged)}")
    if sum(absorbed.values()) < 10:
        raise AnalysisError("boundary inventory implausibly small: the decode region was not analysed")
    # a documented lookup error is excluded only while it is raised for an *absent* id: `x is None` on a lookup result
    for (fq, exc), why in EXCLUDED_ORIGINS.items():
        f = M.func(fq, required=False)
        if f is None:
            raise AnalysisError(f"{fq} (excluded origin) vanished")
        sites = [n for n in own_nodes(f.node) if isinstance(n, ast.Raise) and n.exc is not None and A._raised_class(n.exc, f) == exc]
        if not sites:
            continue
        for n in sites:
            rr.inst()
            none_facts = [fa for fa in facts_at(n) if (fa[1] == "is" and fa[2] == "None") or (fa[0] == "None" and fa[1] == "in")]
            if none_facts:
                rr.ok({"excluded_origin": f"{fq}:{exc}", "guard": f"{none_facts[0][0][:60]} is None"})
            else:
                rr.fail(fq, f"{exc} is excluded as a documented lookup error only when raised for an absent result (`... is None`); this raise is guarded by {sorted(facts_at(n))[:2]} - a present but falsy entry of damaged data would take it", ctx.loc(f, n))
    rr.samples.extend({"excluded": k, "reason": v} for k, v in list(EXCLUDED_FUNCS.items()))
    rr.samples.extend({"excluded_origin": f"{k[0]}:{k[1]}", "reason": v} for k, v in EXCLUDED_ORIGINS.items())
    return rr


# ------------------------------------------------------------------------------------------- R20.1b never None


def _never_none(ctx: Ctx, f: Func, depth: int = 0, seen: set[int] | None = None) -> str | None:
    """None when every normal exit of f returns a value that cannot be None; otherwise the offending construct."""
    seen = seen or set()
    if id(f) in seen or depth > 6:
        return None
    seen = seen | {id(f)}
    if isinstance(f.node, ast.Lambda):
        rets = [f.node.body]
    else:
        body = f.body
        if not _terminates(body):
            return "falls off the end (returns None)"
        rets = []
        for n in own_nodes(f.node):
            if isinstance(n, ast.Return):
                if n.value is None:
                    return "bare return"
                rets.append(n.value)
    for r in rets:
        why = _expr_not_none(ctx, r, f, depth, seen)
        if why is not None:
            return why
    return None


def _expr_not_none(ctx: Ctx, r: ast.expr, f: Func, depth: int, seen: set[int]) -> str | None:
    if isinstance(r, (ast.JoinedStr, ast.Dict, ast.List, ast.Tuple, ast.Set, ast.DictComp, ast.ListComp)):
        return None
    if isinstance(r, ast.Constant):
        return None if r.value is not None else "returns None"
    if isinstance(r, ast.Call):
        if isinstance(r.func, ast.Attribute) and r.func.attr in ("keys", "values", "items") and not r.args:
            return None
        if isinstance(r.func, ast.Attribute) and r.func.attr == "__new__":
            return None  # object construction
        if isinstance(r.func, ast.Name) and r.func.id in ("sorted", "list", "tuple", "dict", "str", "set", "frozenset", "cast") and r.func.id != "cast":
            return None
        if isinstance(r.func, ast.Name) and r.func.id == "cast" and len(r.args) == 2:
            return _expr_not_none(ctx, r.args[1], f, depth, seen)
        tg, how = ctx.R.callees(r, f, count=False)
        if tg:
            if all(t.name in ("__init__", "__new__") for t in tg):
                return None  # constructor call
            for t in tg:
                why = _never_none(ctx, t, depth + 1, seen)
                if why is not None:
                    return f"{t.qual}: {why}"
            return None
        t = ctx.R.type_of(r, ctx.R.scope(f))
        if isinstance(t, str):
            return None
        return f"call {unparse(r)[:60]} not resolved"
    if isinstance(r, ast.Name):
        if r.id == f.self_name:
            return None
        defs = ctx.R.scope(f).defs.get(r.id, [])
        if defs and not any(a.arg == r.id for a in f.params):
            for d in defs:
                why = _expr_not_none(ctx, d, f, depth, seen)
                if why is not None:
                    return why
            return None
        facts = facts_at(r)
        if (r.id, "is not", "None") in facts or (r.id, "truthy", "") in facts:
            return None
        for a in f.params:
            if a.arg == r.id and a.annotation is not None and "None" not in unparse(a.annotation) and "Optional" not in unparse(a.annotation):
                if not any(isinstance(n, ast.Name) and n.id == r.id and isinstance(n.ctx, ast.Store) for n in own_nodes(f.node)):
                    return None  # parameter declared non-optional and never re-bound
        return f"returns name {r.id} of unknown None-ness"
    if isinstance(r, ast.Attribute):
        for node, g in ctx.R.implicit_calls(r, f):
            if g.kind == "property":
                return _never_none(ctx, g, depth + 1, seen)
        facts = facts_at(r)
        u = unparse(r)
        if (u, "is not", "None") in facts:
            return None
        # field: every store into it is a non-None value
        A = ExcAnalysis(ctx)
        vals = A._field_values(r, f)
        if vals:
            for owner, v in vals:
                why = _expr_not_none(ctx, v, owner, depth + 1, seen)
                if why is not None:
                    return f"field {u} may hold None: {why}"
            return None
        return f"attribute {u} of unknown None-ness"
    if isinstance(r, ast.IfExp):
        return _expr_not_none(ctx, r.body, f, depth, seen) or _expr_not_none(ctx, r.orelse, f, depth, seen)
    if isinstance(r, ast.BoolOp) and isinstance(r.op, ast.Or):
        return _expr_not_none(ctx, r.values[-1], f, depth, seen)
    return f"expression {unparse(r)[:60]} of unknown None-ness"


@rule("C20")
def r20_1b_source_never_none(ctx: Ctx) -> RuleResult:
    rr = RuleResult("R20.1b", "TzdbDateTimeZoneSource never returns None where DateTimeZoneCache raises its source-contract error (version_id, get_ids, for_id)", min_instances=3)
    M = ctx.M
    for q in ("TzdbDateTimeZoneSource.version_id", "TzdbDateTimeZoneSource.get_ids", "TzdbDateTimeZoneSource.for_id"):
        f = M.func(q, required=False)
        if f is None:
            raise AnalysisError(f"{q} vanished")
        rr.inst()
        why = _never_none(ctx, f)
        if why is None:
            rr.ok({"fn": q, "result": "every normal exit returns a non-None value"})
        else:
            rr.fail(q, f"may return None, which DateTimeZoneCache reports as InvalidDateTimeZoneSourceError: {why}", f.loc)
    # ids are strings: every key stored in the id map / zone-field map is the result of read_string()
    sd = M.cls("_TzdbStreamData")
    rd = M.cls("_DateTimeZoneReader").methods["read_dictionary"]
    rr.inst()
    keys = [n for n in own_nodes(rd.node) if isinstance(n, ast.Assign) and isinstance(n.targets[0], ast.Subscript)]
    ok = bool(keys)
    for k in keys:
        kd = ctx.R.scope(rd).defs.get(unparse(k.targets[0].slice), [])
        ok &= bool(kd) and all(unparse(d) == "self.read_string()" for d in kd)
    if ok:
        rr.ok({"fn": rd.qual, "keys": "read_string() results"})
    else:
        rr.fail(rd.qual, "id-map keys are not read_string() results (a None id would make DateTimeZoneCache raise its source-contract error)", rd.loc)
    return rr


# ------------------------------------------------------------------------------------------- R20.2 progress


class Progress:
    """must-consume analysis: which functions consume at least one logical input byte (or do not return) on every path."""

    def __init__(self, ctx: Ctx) -> None:
        self.ctx = ctx
        self.M = ctx.M
        self.consumers: set[int] = set()
        self.names: dict[int, str] = {}
        rd = self.M.cls("_DateTimeZoneReader")
        # look-ahead fields: self.F = v[0] where v = <stream>.read(1)
        self.lookahead: set[str] = set()
        for f in rd.all_defs:
            if isinstance(f.node, ast.Lambda):
                continue
            for n in own_nodes(f.node):
                if isinstance(n, ast.Assign) and isinstance(n.targets[0], ast.Attribute) and isinstance(n.value, ast.Subscript) and unparse(n.value.slice) == "0":
                    src = ctx.R.scope(f).defs.get(unparse(n.value.value), [])
                    if src and all(self._is_raw_read(d) for d in src):
                        self.lookahead.add(mangle(rd.name, n.targets[0].attr))

    @staticmethod
    def _is_raw_read(e: ast.AST) -> bool:
        return isinstance(e, ast.Call) and isinstance(e.func, ast.Attribute) and e.func.attr == "read" and len(e.args) == 1

    def solve(self, funcs: list[Func]) -> None:
        changed = True
        while changed:
            changed = False
            for f in funcs:
                if id(f) in self.consumers:
                    continue
                if self.fn_consumes(f):
                    self.consumers.add(id(f))
                    self.names[id(f)] = f.qual
                    changed = True

    def fn_consumes(self, f: Func) -> bool:
        if isinstance(f.node, ast.Lambda):
            return self.expr_consumes(f.node.body, f)
        self._returns: list[bool] = []
        fall = self.block(f.body, False, f)
        rets = self._returns
        if fall is not None:
            rets = rets + [fall]
        return bool(rets) and all(rets)

    # block returns consumed-flag at fall-through, or None when no path falls through
    def block(self, body: list[ast.stmt], consumed: bool, f: Func, breaks: list[bool] | None = None) -> bool | None:
        i = 0
        cur: bool | None = consumed
        while i < len(body):
            s = body[i]
            if cur is None:
                return None
            nxt = body[i + 1] if i + 1 < len(body) else None
            # raw read followed by an emptiness exit
            if isinstance(s, (ast.Assign, ast.AnnAssign)) and s.value is not None and self._is_raw_read(s.value) and isinstance(nxt, ast.If):
                tg = s.targets[0] if isinstance(s, ast.Assign) else s.target
                if isinstance(nxt.test, ast.UnaryOp) and isinstance(nxt.test.op, ast.Not) and unparse(nxt.test.operand) == unparse(tg) and _terminates(nxt.body) and not nxt.orelse:
                    self._note_exits(nxt.body, cur, f, breaks)
                    cur = True
                    i += 2
                    continue
            cur = self.stmt(s, cur, f, breaks)
            i += 1
        return cur

    def _note_exits(self, body: list[ast.stmt], consumed: bool, f: Func, breaks: list[bool] | None) -> None:
        # an exit taken because the stream is empty: a `return` here ends the function without consuming
        last = body[-1]
        if isinstance(last, ast.Return):
            self._returns.append(consumed)
        elif isinstance(last, ast.Break) and breaks is not None:
            breaks.append(True)  # leaves the loop: not a non-progressing iteration

    def stmt(self, s: ast.stmt, consumed: bool, f: Func, breaks: list[bool] | None) -> bool | None:
        if isinstance(s, ast.Return):
            c = consumed or (s.value is not None and self.expr_consumes(s.value, f))
            self._returns.append(c)
            return None
        if isinstance(s, ast.Raise):
            return None
        if isinstance(s, ast.Break):
            if breaks is not None:
                breaks.append(consumed)
            return None
        if isinstance(s, ast.Continue):
            self._continues.append(consumed) if hasattr(self, "_continues") else None
            return None
        if isinstance(s, ast.If):
            c0 = consumed or self.expr_consumes(s.test, f)
            a = self.block(s.body, c0, f, breaks)
            b = self.block(s.orelse, c0, f, breaks) if s.orelse else c0
            if a is None:
                return b
            if b is None:
                return a
            return a and b
        if isinstance(s, ast.Match):
            c0 = consumed or self.expr_consumes(s.subject, f)
            outs: list[bool] = []
            has_default = False
            for c in s.cases:
                if isinstance(c.pattern, ast.MatchAs) and c.pattern.pattern is None and c.guard is None:
                    has_default = True
                r = self.block(c.body, c0, f, breaks)
                if r is not None:
                    outs.append(r)
            if not has_default:
                outs.append(c0)
            return all(outs) if outs else None
        if isinstance(s, (ast.With, ast.AsyncWith)):
            c0 = consumed or any(self.expr_consumes(it.context_expr, f) for it in s.items)
            return self.block(s.body, c0, f, breaks)
        if isinstance(s, ast.Try):
            r = self.block(s.body, consumed, f, breaks)
            for h in s.handlers:
                hr = self.block(h.body, consumed, f, breaks)
                if hr is not None:
                    r = hr if r is None else (r and hr)
            if s.finalbody:
                fr = self.block(s.finalbody, bool(r), f, breaks)
                return None if r is None or fr is None else fr
            return r
        if isinstance(s, ast.While):
            c0 = consumed or self.expr_consumes(s.test, f)
            bk: list[bool] = []
            self.block(s.body, c0, f, bk)
            always = isinstance(s.test, ast.Constant) and s.test.value is True
            if always:
                return all(bk) if bk else None  # leaves only through break (return/raise handled inside)
            return c0 and (all(bk) if bk else True) if c0 else False
        if isinstance(s, (ast.For, ast.AsyncFor)):
            c0 = consumed or self.expr_consumes(s.iter, f)
            bk = []
            self.block(s.body, c0, f, bk)
            return c0 and (all(bk) if bk else True) if c0 else False
        if isinstance(s, (ast.FunctionDef, ast.AsyncFunctionDef, ast.ClassDef)):
            return consumed
        # look-ahead byte handed out: `ret, self.__buffered_byte = self.__buffered_byte, None` under `is not None`
        if isinstance(s, ast.Assign) and self._clears_lookahead(s, f):
            return True
        for ch in ast.iter_child_nodes(s):
            if isinstance(ch, ast.expr) and self.expr_consumes(ch, f):
                return True
        return consumed

    def _clears_lookahead(self, s: ast.Assign, f: Func) -> bool:
        if f.cls is None:
            return False
        tgs: list[ast.expr] = []
        vals: list[ast.expr] = []
        for t in s.targets:
            if isinstance(t, ast.Tuple) and isinstance(s.value, ast.Tuple) and len(t.elts) == len(s.value.elts):
                tgs.extend(t.elts)
                vals.extend(s.value.elts)
            else:
                tgs.append(t)
                vals.append(s.value)
        for t, v in zip(tgs, vals):
            if isinstance(t, ast.Attribute) and mangle(f.cls.name, t.attr) in self.lookahead and isinstance(v, ast.Constant) and v.value is None:
                u = unparse(t)
                if (u, "is not", "None") in facts_at(s):
                    return True
        return False

    def expr_consumes(self, e: ast.AST, f: Func) -> bool:
        """The expression unconditionally evaluates a call to a consumer."""
        for n in self._uncond(e):
            if isinstance(n, ast.Call):
                tg, how = self.ctx.R.callees(n, f, count=False)
                conc = [t for t in tg if not _is_abstract(t)]
                if conc and all(id(t) in self.consumers for t in conc):
                    return True
            elif isinstance(n, ast.Attribute):
                for _, g in self.ctx.R.implicit_calls(n, f):
                    if g.kind == "property" and id(g) in self.consumers:
                        return True
            elif isinstance(n, ast.Subscript) and self._is_raw_read(n.value) and isinstance(n.slice, ast.Constant) and isinstance(n.slice.value, int):
                return True  # stream.read(k)[i]: yields a byte that was consumed, or raises IndexError at end of data
        return False

    def _uncond(self, e: ast.AST) -> list[ast.AST]:
        out: list[ast.AST] = []
        stack = [e]
        while stack:
            n = stack.pop()
            out.append(n)
            if isinstance(n, ast.IfExp):
                stack.append(n.test)
                continue
            if isinstance(n, ast.BoolOp):
                stack.append(n.values[0])
                continue
            if isinstance(n, (ast.Lambda, ast.ListComp, ast.SetComp, ast.GeneratorExp, ast.DictComp)):
                continue
            stack.extend(ast.iter_child_nodes(n))
        return out

    # loop iteration: every path from the loop head back to the head consumes (or leaves the loop)
    def iteration_consumes(self, loop: ast.For | ast.While, f: Func) -> bool:
        self._returns = []
        self._continues: list[bool] = []
        c0 = isinstance(loop, ast.While) and self.expr_consumes(loop.test, f)
        fall = self.block(loop.body, c0, f, [])
        conts = self._continues
        del self._continues
        outs = conts + ([fall] if fall is not None else [])
        return all(outs)  # vacuously true when no path returns to the head


def _is_abstract(f: Func) -> bool:
    """Interface stub: body is `...`, `pass`, or `raise NotImplementedError`."""
    if isinstance(f.node, ast.Lambda):
        return False
    body = f.body
    if len(body) != 1:
        return False
    b = body[0]
    if isinstance(b, ast.Pass) or (isinstance(b, ast.Expr) and isinstance(b.value, ast.Constant) and b.value.value is Ellipsis):
        return True
    return isinstance(b, ast.Raise) and b.exc is not None and "NotImplementedError" in unparse(b.exc)


REVIEWED_LOOPS = {
    ("_PrecalculatedDateTimeZone.get_zone_interval", "lower < upper"): "bisection over the decoded period list: each iteration sets upper = current (< upper) or lower = current + 1 (> lower) or returns",
    ("_CachingZoneIntervalMap.__HashArrayCache._HashCacheNode._create_node", "interval._raw_end._days_since_epoch < next_period_start_days"): "zone *use* (cache fill on lookup), not loading: reachable here only through the over-approximated interface dispatch of get_zone_interval",
    ("_CachingZoneIntervalMap.__HashArrayCache.get_zone_interval", "node._previous is not None and node._interval._raw_start > instant"): "zone *use*: walks a finite linked list built by _create_node",
}


def _decode_region(ctx: Ctx) -> list[Func]:
    A = _analysis(ctx)
    out: dict[int, Func] = {}
    for q in ENTRIES:
        f = ctx.M.func(q, required=False)
        if f is None:
            raise AnalysisError(f"entry point {q} vanished")
        A.escapes(f)
        for g in A.reachable(f):
            if g.mod.rel.startswith("pyoda_time/time_zones/") or g.mod.rel.startswith("pyoda_time/utility/"):
                out[id(g)] = g
    return list(out.values())


def _bounded_by_container(ctx: Ctx, it: ast.expr, f: Func) -> str | None:
    u = unparse(it)
    if isinstance(it, ast.Call) and isinstance(it.func, ast.Name) and it.func.id == "range":
        if all(ctx.M.fold(a, f.cls, f.mod) is not None and isinstance(_fold(ctx, a, f), int) for a in it.args):
            return "constant range"
        if any("len(" in unparse(a) for a in it.args):
            return "range over a container length"
        return None
    if isinstance(it, ast.Call) and isinstance(it.func, ast.Name) and it.func.id in ("sorted", "enumerate", "zip", "reversed", "list", "tuple") and it.args:
        return _bounded_by_container(ctx, it.args[0], f)
    if isinstance(it, ast.Call) and isinstance(it.func, ast.Attribute) and it.func.attr in ("items", "keys", "values"):
        return "dict view"
    if isinstance(it, (ast.Name, ast.Attribute, ast.GeneratorExp, ast.ListComp, ast.DictComp, ast.SetComp, ast.Dict, ast.List, ast.Tuple, ast.Set)):
        if isinstance(it, ast.GeneratorExp):
            return _bounded_by_container(ctx, it.generators[0].iter, f)
        return "iteration over an in-memory container"
    return None


def _fold(ctx: Ctx, e: ast.expr, f: Func) -> Any:
    try:
        return ctx.M.fold(e, f.cls, f.mod)
    except Exception:
        return None


@rule("C20")
def r20_2_progress(ctx: Ctx) -> RuleResult:
    rr = RuleResult("R20.2", "every loop of the zone-data decoding code consumes input (or leaves) on each iteration, or iterates over an in-memory container (no hang on damaged data)", min_instances=14)
    region = _decode_region(ctx)
    P = Progress(ctx)
    P.solve(region)
    if not P.lookahead:
        raise AnalysisError("look-ahead byte field of _DateTimeZoneReader not found")
    need = {"_DateTimeZoneReader.read_byte", "_DateTimeZoneReader.read_count", "_DateTimeZoneReader.read_string"}
    have = set(P.names.values())
    for q in sorted(need):
        rr.inst()
        if q in have:
            rr.ok({"consumer": q})
        else:
            rr.fail(q, "reader primitive can return without consuming input and without raising (a count-driven loop around it then spins without progress)", ctx.M.func(q).loc)
    for f in sorted(region, key=lambda g: g.qual):
        if isinstance(f.node, ast.Lambda):
            nodes = list(sub_nodes(f.node.body))
        else:
            nodes = list(own_nodes(f.node))
        for n in nodes:
            if isinstance(n, (ast.For, ast.While)):
                rr.inst()
                rr.states += 1
                key = (f.qual, unparse(n.test) if isinstance(n, ast.While) else unparse(n.iter))
                why = _bounded_by_container(ctx, n.iter, f) if isinstance(n, ast.For) else None
                if why is None and isinstance(n, ast.For) and isinstance(n.iter, ast.Call):
                    tg, _ = ctx.R.callees(n.iter, f, count=False)
                    if tg and all(any(isinstance(y, (ast.Yield, ast.YieldFrom)) for y in own_nodes(t.node)) and any(id(t) == id(r) for r in region) for t in tg):
                        why = f"generator {tg[0].qual}: one iteration per yield, its own loops are checked by this rule"
                if why:
                    rr.ok({"loop": key, "bounded": why})
                elif P.iteration_consumes(n, f):
                    rr.ok({"loop": key, "progress": "every iteration path consumes input or leaves"})
                elif key in REVIEWED_LOOPS:
                    rr.ok({"loop": key, "reviewed": REVIEWED_LOOPS[key]})
                else:
                    rr.fail(f.qual, f"loop `{key[1][:80]}` can iterate without consuming input: its trip count is driven by untrusted data", ctx.loc(f, n))
            elif isinstance(n, (ast.GeneratorExp, ast.ListComp, ast.SetComp, ast.DictComp)):
                g = n.generators[0]
                rr.inst()
                key = (f.qual, unparse(g.iter))
                why = _bounded_by_container(ctx, g.iter, f)
                elt = n.elt if not isinstance(n, ast.DictComp) else ast.Tuple(elts=[n.key, n.value], ctx=ast.Load())
                if why:
                    rr.ok({"loop": key, "bounded": why})
                elif P.expr_consumes(elt, f):
                    rr.ok({"loop": key, "progress": "element expression consumes input"})
                else:
                    rr.fail(f.qual, f"comprehension over `{key[1][:80]}` produces elements without consuming input: its length is driven by untrusted data", ctx.loc(f, n))
    rr.notes.append(f"decode-region functions: {len(region)}; must-consume functions: {len(P.consumers)} ({', '.join(sorted(P.names.values())[:12])} ...)")
    return rr


# ------------------------------------------------------------------------------------------- R20.3 allocation


@rule("C20")
def r20_3_allocation(ctx: Ctx) -> RuleResult:
    rr = RuleResult("R20.3", "no read or allocation sized by an untrusted count on the caller's stream: the raw stream is only read in constant-size steps, sized reads happen on in-memory field copies", min_instances=6)
    M = ctx.M
    region = _decode_region(ctx)
    raw_fns: list[tuple[Func, str]] = []
    for f in region:
        for a in f.params:
            if a.annotation is not None and unparse(a.annotation).strip("'\"") in ("BinaryIO", "typing.BinaryIO", "IO[bytes]"):
                raw_fns.append((f, a.arg))
    if not raw_fns:
        raise AnalysisError("no function takes the caller's stream")
    rd = M.cls("_DateTimeZoneReader")
    # reader methods that perform a sized read / allocation
    sized: set[str] = set()
    for f in rd.all_defs:
        if isinstance(f.node, ast.Lambda):
            continue
        for n in own_nodes(f.node):
            if isinstance(n, ast.Call) and isinstance(n.func, ast.Attribute) and n.func.attr == "read" and n.args and not isinstance(_fold(ctx, n.args[0], f), int):
                sized.add(f.name)
    # close over self-calls
    changed = True
    while changed:
        changed = False
        for f in rd.all_defs:
            if isinstance(f.node, ast.Lambda) or f.name in sized:
                continue
            for n in own_nodes(f.node):
                if isinstance(n, ast.Call) and isinstance(n.func, ast.Attribute) and isinstance(n.func.value, ast.Name) and n.func.value.id == f.self_name and (n.func.attr in sized or mangle(rd.name, n.func.attr) in {mangle(rd.name, s) for s in sized}):
                    sized.add(f.name)
                    changed = True
    rr.notes.append(f"reader methods performing data-sized reads: {sorted(sized)}")
    for f, p in raw_fns:
        # _DateTimeZoneReader._ctor(stream, pool) stores the stream: the reader class itself is checked through its users
        if f.cls is rd:
            continue
        for n in own_nodes(f.node):
            if not (isinstance(n, ast.Name) and n.id == p and isinstance(n.ctx, ast.Load)):
                continue
            rr.inst()
            par = getattr(n, "_parent", None)
            gp = getattr(par, "_parent", None)
            where = f.qual
            if isinstance(par, ast.Attribute) and par.attr == "read" and isinstance(gp, ast.Call) and gp.func is par:
                v = _fold(ctx, gp.args[0], f) if gp.args else None
                if isinstance(v, int) and 0 < v <= 4096:
                    rr.ok({"fn": where, "use": unparse(gp)})
                else:
                    rr.fail(where, f"caller's stream read with a non-constant size: {unparse(gp)[:80]} (a damaged length field makes this allocate up front)", ctx.loc(f, n))
            elif isinstance(par, ast.Call) and n in par.args:
                tg, _ = ctx.R.callees(par, f, count=False)
                if tg and all(t.cls is rd and t.name == "_ctor" for t in tg):
                    # the reader built over the raw stream may only be used for constant-size primitives
                    use = getattr(par, "_parent", None)
                    if isinstance(use, ast.Attribute) and isinstance(getattr(use, "_parent", None), ast.Call) and use.attr not in sized:
                        rr.ok({"fn": where, "use": unparse(getattr(use, "_parent"))[:80]})
                    else:
                        rr.fail(where, f"reader over the caller's stream is used for data-sized reads or escapes: {unparse(getattr(use, '_parent', use) if use is not None else par)[:80]}", ctx.loc(f, n))
                elif tg and all(any(unparse(a.annotation).strip("'\"") == "BinaryIO" for a in t.params if a.annotation is not None) for t in tg):
                    rr.ok({"fn": where, "use": f"passed on to {tg[0].qual} (checked there)"})
                elif unparse(par.func).endswith("_check_not_null"):
                    rr.ok({"fn": where, "use": "null check"})
                else:
                    rr.fail(where, f"caller's stream escapes to {unparse(par.func)[:60]}", ctx.loc(f, n))
            elif isinstance(par, ast.Return) or isinstance(par, (ast.Assign, ast.AnnAssign)):
                if f.cls is rd:
                    rr.ok()
                else:
                    rr.fail(where, f"caller's stream is stored or returned: {unparse(par)[:60]}", ctx.loc(f, n))
            else:
                rr.fail(where, f"unrecognised use of the caller's stream: {unparse(par)[:60]}", ctx.loc(f, n))
    # allocations sized by data anywhere in the decode region
    for f in region:
        nodes = list(own_nodes(f.node)) if not isinstance(f.node, ast.Lambda) else list(sub_nodes(f.node.body))
        for n in nodes:
            bad = None
            if isinstance(n, ast.Call) and isinstance(n.func, ast.Name) and n.func.id in ("bytearray", "bytes") and len(n.args) == 1:
                t = ctx.R.type_of(n.args[0], ctx.R.scope(f))
                if t == "int" and not isinstance(_fold(ctx, n.args[0], f), int):
                    bad = unparse(n)
            elif isinstance(n, ast.BinOp) and isinstance(n.op, ast.Mult):
                for a, b in ((n.left, n.right), (n.right, n.left)):
                    if isinstance(a, (ast.List, ast.Tuple)) or (isinstance(a, ast.Constant) and isinstance(a.value, (str, bytes))):
                        if not isinstance(_fold(ctx, b, f), int):
                            bad = unparse(n)
            elif isinstance(n, ast.Call) and isinstance(n.func, ast.Name) and n.func.id in ("list", "tuple") and n.args and isinstance(n.args[0], ast.Call) and unparse(n.args[0].func) == "range":
                if not all(isinstance(_fold(ctx, a, f), int) for a in n.args[0].args):
                    bad = unparse(n)
            if bad is not None:
                rr.inst()
                rr.fail(f.qual, f"allocation sized by a run-time count before any input is consumed: {bad[:80]}", ctx.loc(f, n))
    return rr


@rule("C20")
def r20_4_handlers_and_closed_streams(ctx: Ctx) -> RuleResult:
    """(a) A stream opened by `with ... as s:` is closed when the block is left; any later use of `s` (in an `except` handler that
    builds a message, after the block) raises ValueError on the closed file - an exception that is not the documented one and that
    replaces the error being reported.  (b) The handlers that normalise decoding failures into InvalidPyodaDataError must themselves
    be free of raising operations: inside such a handler only the error's constructor, the caught exception and plain names may
    be used."""
    rr = RuleResult("R20.4", "decoding code never touches a with-managed stream after its block, and the handlers that convert failures to the invalid-data error do nothing that can raise", min_instances=3)
    region = _decode_region(ctx)
    for f in sorted(region, key=lambda x: x.qual):
        if isinstance(f.node, ast.Lambda):
            continue
        for w in own_nodes(f.node):
            if isinstance(w, ast.With):
                for it in w.items:
                    if isinstance(it.optional_vars, ast.Name):
                        v = it.optional_vars.id
                        rr.inst()
                        inside = {id(x) for x in ast.walk(w)}
                        # uses that textually follow the with statement, or sit in handlers of a try that encloses it
                        late = [n for n in own_nodes(f.node) if isinstance(n, ast.Name) and n.id == v and isinstance(n.ctx, ast.Load) and id(n) not in inside
                                and (n.lineno, n.col_offset) > (w.lineno, w.col_offset)]
                        rebound = any(isinstance(n, ast.Name) and n.id == v and isinstance(n.ctx, ast.Store) and id(n) not in inside and (n.lineno, n.col_offset) > (w.end_lineno or w.lineno, 0) for n in own_nodes(f.node))
                        if late and not rebound:
                            rr.fail(f.qual, f"`{v}` is used after the `with` block that closes it (`{unparse(getattr(late[0], '_parent', late[0]))[:60]}`): operations on a closed stream raise ValueError", ctx.loc(f, late[0]))
                        else:
                            rr.ok({"fn": f.qual, "managed": v})
        for t in own_nodes(f.node):
            if not isinstance(t, ast.Try):
                continue
            for h in t.handlers:
                raises = [s for s in h.body if isinstance(s, ast.Raise) and s.exc is not None and "InvalidPyodaDataError" in unparse(s.exc)]
                if not raises or h.type is None or "InvalidPyodaDataError" in unparse(h.type):
                    continue
                rr.inst()
                bad = None
                for s in h.body:
                    for c in ast.walk(s):
                        if isinstance(c, ast.Call):
                            fn_txt = unparse(c.func)
                            if fn_txt.endswith("InvalidPyodaDataError") or fn_txt in ("str", "repr", "type"):
                                continue
                            bad = c
                        elif isinstance(c, (ast.Subscript, ast.BinOp)) and not isinstance(getattr(c, "ctx", None), ast.Store):
                            bad = bad or c
                if bad is not None:
                    rr.fail(f.qual, f"the handler that converts to InvalidPyodaDataError evaluates `{unparse(bad)[:60]}`, which can itself raise and then replaces the documented error", ctx.loc(f, bad))
                else:
                    rr.ok({"fn": f.qual, "handler": unparse(h.type)})
    return rr


@rule("C20")
def r20_5_required_sections(ctx: Ctx) -> RuleResult:
    """The stream data object is built from a builder whose sections are all Optional (a file may lack them).  A section whose
    accessor promises a non-Optional type must be checked with `_check_not_null` (-> InvalidPyodaDataError "Missing field")
    when it is copied out of the builder; copying it unchecked turns a truncated file into an AttributeError / TypeError on
    None somewhere in the source's constructor, outside the documented error."""
    rr = RuleResult("R20.5", "every section of the zone-data file whose accessor is non-Optional is checked for presence when copied from the builder", min_instances=5)
    M = ctx.M
    c = M.cls("_TzdbStreamData")
    b = next((k for k in M.all_classes() if k.name == "_Builder" and k.mod is c.mod), None)
    init = M.find_method(c, "__init__")
    if b is None or init is None:
        raise AnalysisError("_TzdbStreamData._Builder / __init__ missing")
    optional: dict[str, bool] = {}
    for f in b.all_defs:
        if isinstance(f.node, ast.Lambda) or f.name != "__init__":
            continue
        for n in own_nodes(f.node):
            if isinstance(n, ast.AnnAssign) and isinstance(n.target, ast.Attribute):
                optional[n.target.attr] = "None" in unparse(n.annotation)
    bp = init.value_params[0].arg
    for n in own_nodes(init.node):
        tg = n.targets if isinstance(n, ast.Assign) else [n.target] if isinstance(n, ast.AnnAssign) and n.value is not None else []
        for t in tg:
            if not (isinstance(t, ast.Attribute) and isinstance(t.value, ast.Name) and t.value.id == init.self_name):
                continue
            v = n.value
            src = next((a for a in ast.walk(v) if isinstance(a, ast.Attribute) and isinstance(a.value, ast.Name) and a.value.id == bp), None)
            if src is None or not optional.get(src.attr, False):
                continue
            rr.inst()
            checked = isinstance(v, ast.Call) and unparse(v.func).endswith("_check_not_null")
            # accessor of the stored field
            field = mangle(c.name, t.attr)
            acc = next((g for g in c.all_defs if g.kind == "property" and not isinstance(g.node, ast.Lambda) and any(isinstance(r, ast.Return) and isinstance(r.value, ast.Attribute) and mangle(c.name, r.value.attr) == field for r in own_nodes(g.node))), None)
            promised_optional = acc is None or acc.node.returns is None or "None" in unparse(acc.node.returns)
            if checked or promised_optional:
                rr.ok({"field": t.attr, "checked": checked, "accessor optional": promised_optional})
            else:
                rr.fail(init.qual, f"`{unparse(t)} = {unparse(v)[:50]}` copies an optional section unchecked although `{acc.name}` promises `{unparse(acc.node.returns)}`: a file without that section yields None here and an AttributeError later instead of the invalid-data error", ctx.loc(init, n))
    return rr
