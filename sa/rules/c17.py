"""C17 - ISO patterns interoperate with other ISO-8601 implementations.

Agreement of values with the standard library is NOT decided (it is a differential claim over values).  Decided:
  R17.1  shape: the pattern text behind every built-in ISO / round-trip accessor tokenises (pattern-language tokeniser: quotes,
         escapes, letter runs, ';'/'.' fraction forms) to exactly the ISO-8601 extended shape - 4-digit year `u`, 2-digit
         month/day/hour(24h `H`)/minute/second, literal '-' ':' 'T', fraction `;FFFFFFFFF` (optional, no trailing zeros) or a
         fixed `fffffffff`, instants end in a literal 'Z', offsets are sign + HH[:mm[:ss]] - and the parser tables give those
         letters fixed-width numeric handlers (count == max_count) for the right field.
  R17.2  exact arithmetic: the field getters / digit accumulators of the text layer use no float arithmetic on unbounded
         quantities and no flooring operator on possibly negative quantities (offset minutes/seconds of negative offsets).
  R17.3  numbers are zero-padded on non-negative operands only (negative years are written as '-' + 4 digits).
  R17.4  instants are rendered through in_utc() and parsed by reading the local fields as UTC (no offset arithmetic).
"""
from __future__ import annotations

import ast
from typing import Any

from ..core import Ctx, RuleResult, rule
from ..kit import own_nodes
from ..model import UNKNOWN, AnalysisError, Func, mangle, unparse
from ..numeric import FLOAT_CALL_EXEMPT, check_numeric
from ..patterns import parser_tables
from .c07 import helper_spec_sites

DATE = [("u", 4), "-", ("M", 2), "-", ("d", 2)]
HMS = [("H", 2), ":", ("m", 2), ":", ("s", 2)]
HM = [("H", 2), ":", ("m", 2)]
F9 = [(";F", 9)]
f9 = [(";f", 9)]

EXPECTED: dict[str, list[Any]] = {
    "LocalDatePattern.iso": DATE,
    "AnnualDatePattern.iso": [("M", 2), "-", ("d", 2)],
    "LocalTimePattern.extended_iso": HMS + F9,
    "LocalTimePattern.long_extended_iso": HMS + f9,
    "LocalTimePattern.general_iso": HMS,
    "LocalTimePattern.hour_minute_iso": HM,
    "LocalTimePattern.hour_iso": [("H", 2)],
    "LocalDateTimePattern.general_iso": DATE + ["T"] + HMS,
    "LocalDateTimePattern.extended_iso": DATE + ["T"] + HMS + F9,
    "LocalDateTimePattern.bcl_round_trip": DATE + ["T"] + HMS + [".", ("f", 7)],
    "LocalDateTimePattern.full_roundtrip_without_calendar": DATE + ["T"] + HMS + [".", ("f", 9)],
    "LocalDateTimePattern.date_hour_minute_iso": DATE + ["T"] + HM,
    "LocalDateTimePattern.date_hour_iso": DATE + ["T", ("H", 2)],
    "InstantPattern.general": DATE + ["T"] + HMS + ["Z"],
    "InstantPattern.extended_iso": DATE + ["T"] + HMS + F9 + ["Z"],
}

OFFSET_RESOURCES = {
    "OffsetPatternLong": [("+", 1), ("H", 2), ":", ("m", 2), ":", ("s", 2)],
    "OffsetPatternMedium": [("+", 1), ("H", 2), ":", ("m", 2)],
    "OffsetPatternShort": [("+", 1), ("H", 2)],
}


def tokenize(p: str) -> list[Any]:
    """Tokens of a custom pattern text: (letter, count) for letter runs, (';F', n)/(';f', n) for the comma-dot fraction form,
    merged literal strings for quoted / escaped / plain characters."""
    out: list[Any] = []

    def lit(s: str) -> None:
        if not s:
            return
        if out and isinstance(out[-1], str):
            out[-1] += s
        else:
            out.append(s)

    i = 0
    while i < len(p):
        ch = p[i]
        if ch in ("'", '"'):
            j = i + 1
            buf = ""
            while j < len(p) and p[j] != ch:
                if p[j] == "\\" and j + 1 < len(p):
                    j += 1
                buf += p[j]
                j += 1
            lit(buf)
            i = j + 1
        elif ch == "\\" and i + 1 < len(p):
            lit(p[i + 1])
            i += 2
        elif ch == ";" and i + 1 < len(p) and p[i + 1] in "Ff":
            j = i + 1
            while j < len(p) and p[j] == p[i + 1]:
                j += 1
            out.append((";" + p[i + 1], j - i - 1))
            i = j
        elif ch.isalpha() or ch in "+-" and (not out or not isinstance(out[-1], tuple) or True) and ch == "+":
            j = i
            while j < len(p) and p[j] == ch:
                j += 1
            out.append((ch, j - i))
            i = j
        else:
            lit(ch)
            i += 1
    return out


def _literal_T(ctx: Ctx, toks: list[Any]) -> list[Any]:
    """An unquoted single `T` is a literal in date-time patterns: its table row adds the literal character 'T' (checked)."""
    if ("T", 1) not in toks:
        return toks
    ok = False
    for pt in parser_tables(ctx):
        if pt.parser.name == "_LocalDateTimePatternParser" and "T" in pt.rows:
            A = __import__("sa.exc", fromlist=["ExcAnalysis"]).ExcAnalysis(ctx)
            fs = A.resolve_callable(pt.rows["T"], A.classbody_holder(pt.parser, pt.attr, pt.table), 0, set()) or []
            ok = bool(fs) and all(any(isinstance(n, ast.Call) and isinstance(n.func, ast.Attribute) and n.func.attr == "_add_literal" and any(k.arg == "expected_char" and isinstance(k.value, ast.Constant) and k.value.value == "T" for k in n.keywords) for n in own_nodes(f.node)) for f in fs)
    return [("T" if t == ("T", 1) and ok else t) for t in toks]


def _merge(toks: list[Any]) -> list[Any]:
    out: list[Any] = []
    for t in toks:
        if isinstance(t, str) and out and isinstance(out[-1], str):
            out[-1] += t
        else:
            out.append(t)
    return out


def _pattern_text_of(ctx: Ctx, qual: str) -> tuple[str | None, Func | None, str]:
    """Pattern text constant behind an accessor: the create_with_invariant_culture("...") in it, or in the lazily created
    implementation property it returns."""
    M = ctx.M
    cname, attr = qual.split(".")
    f = M.func(qual, required=False)
    if f is None:
        c = M.cls(cname, required=False)
        if c is not None:
            f = M.find_meta_method(c, attr) or M.find_method(c, attr)
    if f is None:
        c = M.cls(cname, required=False)
        cands = [h for h in M.funcs.values() if c is not None and h.mod is c.mod and h.name == attr and h.kind == "property"]
        if len(cands) == 1:
            f = cands[0]
    if f is None:
        return None, None, "accessor not found"
    seen: set[int] = set()
    work = [f]
    while work:
        g = work.pop()
        if id(g) in seen or isinstance(g.node, ast.Lambda):
            continue
        seen.add(id(g))
        for n in own_nodes(g.node):
            if isinstance(n, ast.Call) and isinstance(n.func, ast.Attribute) and n.func.attr in ("create_with_invariant_culture",) and n.args:
                v = M.fold(n.args[0], g.cls, g.mod)
                if isinstance(v, str):
                    return v, g, n.func.attr
            if isinstance(n, ast.Return) and n.value is not None:
                tail = n.value
                if isinstance(tail, ast.Attribute):
                    nm = tail.attr
                    for h in M.funcs.values():
                        if h.mod is g.mod and h.name == nm and h is not g:
                            work.append(h)
    return None, f, "no invariant-culture pattern text constant found"


@rule("C17")
def r17_1_iso_shape(ctx: Ctx) -> RuleResult:
    rr = RuleResult("R17.1", "built-in ISO / round-trip pattern texts tokenise to the ISO-8601 extended shape (fixed-width numeric fields, 24-hour H, literal '-' ':' 'T', optional ;F9 or fixed f fraction, 'Z' for instants, +HH[:mm[:ss]] offsets) and the parser tables give those letters fixed-width handlers for the right field", min_instances=25)
    M = ctx.M
    for qual, want in EXPECTED.items():
        rr.inst()
        text, where, how = _pattern_text_of(ctx, qual)
        if text is None:
            raise AnalysisError(f"{qual}: {how}")
        got = _merge(_literal_T(ctx, tokenize(text)))
        if got == want:
            rr.ok({"pattern": qual, "text": text})
        else:
            diff = next((i for i, (a, b) in enumerate(zip(got, want)) if a != b), min(len(got), len(want)))
            rr.fail(qual, f"pattern text {text!r} is not the ISO-8601 shape: token {diff} is {got[diff] if diff < len(got) else 'missing'}, expected {want[diff] if diff < len(want) else 'end of pattern'}", where.loc if where else "")
    # offsets: 'g' / 'G' standard patterns expand to the three resource texts
    for acc, letter in (("OffsetPattern.general_invariant", "g"), ("OffsetPattern.general_invariant_with_z", "G")):
        rr.inst()
        text, where, how = _pattern_text_of(ctx, acc)
        if text == letter:
            rr.ok({"pattern": acc, "text": text})
        else:
            rr.fail(acc, f"expected the standard pattern {letter!r}, found {text!r}", where.loc if where else "")
    res = None
    for m in M.mods.values():
        if m.rel.endswith("_pattern_resources.py"):
            for n in ast.walk(m.tree):
                if isinstance(n, ast.Dict) and any(isinstance(k, ast.Constant) and k.value == "OffsetPatternLong" for k in n.keys):
                    res = {k.value: v.value for k, v in zip(n.keys, n.values) if isinstance(k, ast.Constant) and isinstance(v, ast.Constant)}
    if res is None:
        raise AnalysisError("offset pattern resources not found")
    for key, want in OFFSET_RESOURCES.items():
        rr.inst()
        got = tokenize(res.get(key, ""))
        if got == want:
            rr.ok({"resource": key, "text": res[key]})
        else:
            rr.fail("_PatternResources", f"{key} = {res.get(key)!r} is not sign + HH[:mm[:ss]]", "pyoda_time/globalization/_pattern_resources.py")
    # the 'g' expansion uses long / medium / short in that order with predicates zero-seconds / zero-seconds-and-minutes
    from .c07 import offset_composites

    comps = offset_composites(ctx)
    if not comps:
        raise AnalysisError("no CompositePatternBuilder call in the Offset parser")
    for f, c, rows in comps:
        rr.inst()
        prec = []
        for texts, qe, pe in rows or []:
            ms = {1 if "s" in t else 60 if "m" in t else 3600 for t in texts if t}
            prec.append(ms.pop() if len(ms) == 1 else None)
        # most precise first when parsing; the predicates (decided by R07.9) pick the least precise lossless one when formatting
        if rows and prec == [1, 60, 3600]:
            rr.ok({"general offset pattern": f.qual, "precisions (seconds)": prec})
        else:
            rr.fail(f.qual, f"the general offset pattern does not combine the long / medium / short patterns in that order (precisions found: {prec})", ctx.loc(f, c))
    # letters of the ISO shapes have fixed-width numeric handlers for the right field in every table that defines them
    want_rows = {"u": (4, "YEAR"), "H": (2, "HOURS_24"), "m": (2, "MINUTES"), "s": (2, "SECONDS")}
    for pt in parser_tables(ctx):
        if pt.parser.name == "_DurationPatternParser":
            continue
        for ch, (digits, fld) in want_rows.items():
            if ch not in pt.rows:
                continue
            rr.inst()
            call = pt.rows[ch]
            if not (isinstance(call, ast.Call) and unparse(call.func).split("[")[0].endswith("_handle_padded_field") or isinstance(call, ast.Call) and "_handle_padded_field" in unparse(call.func)):
                rr.fail(pt.parser.qual, f"letter {ch!r} is not a padded numeric field", pt.parser.mod.rel)
                continue
            from ..kit import positional

            pargs = positional(call, M.func("_SteppedPatternBuilder._handle_padded_field", required=True))
            mc = M.fold(pargs[0], pt.parser, pt.parser.mod)
            f = unparse(pargs[1]).split(".")[-1]
            if mc == digits and f == fld:
                rr.ok({"table": pt.parser.name, "letter": ch, "max_count": mc, "field": f})
            else:
                rr.fail(pt.parser.qual, f"letter {ch!r}: max_count {mc} / field {f}, ISO shape needs {digits} digits of {fld}", pt.parser.mod.rel)
    # repeat counts equal to max_count are written and read with exactly that many digits
    hp = M.func("_SteppedPatternBuilder._handle_padded_field")
    rr.inst()
    inner = [n for g in [x for lst in hp.nested_all.values() for x in lst] for n in own_nodes(g.node) if isinstance(n, ast.Call) and isinstance(n.func, ast.Attribute)]
    pv = next((n for n in inner if n.func.attr == "_add_parse_value_action"), None)
    fl = next((n for n in inner if n.func.attr == "add_format_left_pad"), None)
    ok = pv is not None and fl is not None and [unparse(a) for a in pv.args[:2]] == ["count", "max_count"] and unparse(fl.args[0]) == "count" and any(k.arg == "assume_fits_in_count" and unparse(k.value) == "count == max_count" for k in fl.keywords)
    if ok:
        rr.ok({"padded_field": "parses count..max_count digits, writes at least count digits; fixed width when count == max_count"})
    else:
        rr.fail(hp.qual, "padded fields are not parsed with (count, max_count) digits and written with count digits", hp.loc)
    return rr


TEXT_NUMERIC_MODULES = [
    "pyoda_time/text/_offset_pattern_parser.py", "pyoda_time/text/_value_cursor.py", "pyoda_time/text/_format_helper.py",
    "pyoda_time/text/_local_time_pattern_parser.py", "pyoda_time/text/_local_date_time_pattern_parser.py", "pyoda_time/text/_instant_pattern_parser.py",
    "pyoda_time/text/patterns/_time_pattern_helper.py", "pyoda_time/text/_duration_pattern_parser.py", "pyoda_time/text/_local_date_pattern_parser.py",
]


@rule("C17")
def r17_2_exact_arithmetic(ctx: Ctx) -> RuleResult:
    rr = RuleResult("R17.2", "field getters and digit accumulators of the text layer use exact arithmetic: no float division / float-valued call on unbounded quantities, no flooring operator on possibly negative quantities", min_instances=1)
    FLOAT_CALL_EXEMPT.setdefault(("_ValueCursor._parse_fraction", "pow"), "10.0 ** k for 0 <= k <= 9 is exact, and the accumulated digits (< 10**9) times it stay below 2**53")
    check_numeric(ctx, rr, TEXT_NUMERIC_MODULES)
    return rr


@rule("C17")
def r17_3_sign_and_padding(ctx: Ctx) -> RuleResult:
    rr = RuleResult("R17.3", "numbers are zero-padded on non-negative operands only: a negative year is written as '-' followed by four digits, fractions never carry a sign", min_instances=4)
    helper_spec_sites(ctx, rr)
    return rr


@rule("C17")
def r17_4_instant_is_utc(ctx: Ctx) -> RuleResult:
    rr = RuleResult("R17.4", "instants are formatted through in_utc() and parsed by reading the local date/time fields as UTC", min_instances=3)
    M = ctx.M
    ad = next((c for c in M.all_classes() if c.name.endswith("LocalDateTimePatternAdapter")), None)
    if ad is None:
        raise AnalysisError("instant adapter class missing")
    for nm in ("format", "append_format"):
        f = M.find_method(ad, nm)
        rr.inst()
        if f is None:
            raise AnalysisError(f"adapter.{nm} missing")
        args = [unparse(a) for n in own_nodes(f.node) if isinstance(n, ast.Call) and isinstance(n.func, ast.Attribute) and n.func.attr == nm and "pattern" in unparse(n.func.value) for a in n.args[:1]]
        if args and all(a == "value.in_utc().local_date_time" for a in args):
            rr.ok({"adapter": nm, "renders": args[0]})
        else:
            rr.fail(f.qual, f"the instant is not rendered as its UTC local date/time: {args}", f.loc)
    p = M.find_method(ad, "parse")
    rr.inst()
    conv = [n for g in [x for lst in p.nested_all.values() for x in lst] for n in own_nodes(g.node) if isinstance(n, ast.Return) and n.value is not None]
    ok = conv and all(isinstance(n.value, ast.Call) and unparse(n.value.func) == "Instant._ctor" and {k.arg: unparse(k.value) for k in n.value.keywords} == {"days": "value.date._days_since_epoch", "nano_of_day": "value.nanosecond_of_day"} for n in conv)
    if ok:
        rr.ok({"adapter": "parse", "builds": "Instant(days since epoch, nanosecond of day) of the parsed local value"})
    else:
        rr.fail(p.qual, "the parsed local date/time is not read as UTC (days since epoch + nanosecond of day)", p.loc)
    return rr


@rule("C17")
def r17_5_patterns_are_stateless(ctx: Ctx) -> RuleResult:
    """A built pattern object is shared (the standard ISO patterns are process-wide singletons): parsing and formatting must not
    leave anything behind in it.  No method of a pattern class other than its constructors assigns to an attribute of `self`
    (lazily filled slots that are tested for None and filled with a value independent of the call's arguments are the only
    exception, and are checked by the lazy-slot rule R13.5)."""
    from ..memo import lazy_slots

    rr = RuleResult("R17.5", "pattern objects keep no state between calls: outside constructors no method of a pattern class writes to self", min_instances=15)
    M = ctx.M
    lazy_stmts = {id(x) for ls in lazy_slots(M) if ls.problem is None for b in ls.node.body for x in ast.walk(b)}
    for c in sorted(M.all_classes(), key=lambda x: x.qual):
        if "/text/" not in c.mod.rel:
            continue
        n = c.name
        if "Pattern" not in n or any(w in n for w in ("Builder", "Parser", "Cursor", "Bucket", "Meta", "Helper", "Fields")):
            continue
        rr.inst()
        bad = None
        for f in c.all_defs:
            if isinstance(f.node, ast.Lambda) or f.name in ("__init__", "_ctor", "__new__") or f.name.endswith("__ctor") or f.self_name is None:
                continue
            for s in own_nodes(f.node):
                tg = s.targets if isinstance(s, ast.Assign) else [s.target] if isinstance(s, (ast.AugAssign, ast.AnnAssign)) else []
                for t in tg:
                    if isinstance(t, ast.Attribute) and isinstance(t.value, ast.Name) and t.value.id == f.self_name and id(s) not in lazy_stmts:
                        bad = (f, s, unparse(t))
        if bad:
            f, s, t = bad
            rr.fail(f.qual, f"writes `{t}` on the shared pattern object during {f.name}: a later call on the same pattern sees what an earlier one left behind", ctx.loc(f, s))
        else:
            rr.ok({"class": c.qual})
    return rr


@rule("C17")
def r17_6_fraction_separator(ctx: Ctx) -> RuleResult:
    """The decimal separator of an optional fraction (`.FFF` / `;FFF`) is written by its own format action, followed by the
    truncating fraction formatter, which removes the separator again when no digit is written.  The separator action must
    therefore write the separator whenever at least one digit will follow: either unconditionally, or under a test that is true
    for every fraction >= 10**(max_count - count) (evaluated at the boundary values for every count)."""
    from ..absint import Iv, State
    from ..oblig import interp
    import copy

    rr = RuleResult("R17.6", "optional-fraction patterns write the decimal separator whenever a fraction digit follows", min_instances=3)
    M = ctx.M
    for g in sorted(set(M.func_of_node.values()), key=lambda x: x.qual):
        if isinstance(g.node, ast.Lambda) or not g.mod.rel.endswith("_time_pattern_helper.py") or g.parent is None:
            continue
        apps = [n for n in own_nodes(g.node) if isinstance(n, ast.Call) and isinstance(n.func, ast.Attribute) and n.func.attr == "append" and n.args and isinstance(n.args[0], ast.Constant) and n.args[0].value in (".", ",")]
        if not apps or len(g.params) != 2:
            continue
        a = apps[0]
        rr.inst()
        conds = []
        p = getattr(a, "_parent", None)
        ch: ast.AST = a
        while p is not None and p is not g.node:
            if isinstance(p, ast.If):
                conds.append((p.test, ch in p.body or any(ch is x for x in p.body)))
            ch, p = p, getattr(p, "_parent", None)
        if not conds:
            rr.ok({"action": g.qual, "separator": "unconditional"})
            continue
        # the fraction pattern's repeat count ranges over 1..max_count; max_count comes from the handler's caller (9 for nanoseconds)
        bad = None
        for max_count in (7, 9):
            for count in range(1, max_count + 1):
                T = 10 ** (max_count - count)
                for v in sorted({0, 1, T - 1, T, T + 1, 10 ** max_count - 1}):
                    if v < 0:
                        continue
                    env: dict[str, Any] = {"count": Iv(count, count), "max_count": Iv(max_count, max_count)}
                    # locals of the enclosing handler that the test reads (single-assignment temporaries)
                    outer = g.parent
                    while outer is not None:
                        for n in own_nodes(outer.node):
                            if isinstance(n, (ast.Assign, ast.AnnAssign)) and getattr(n, "value", None) is not None:
                                t = n.targets[0] if isinstance(n, ast.Assign) else n.target
                                if isinstance(t, ast.Name) and t.id not in env:
                                    I0 = interp(ctx)
                                    val = I0.ev(n.value, State(dict(env)), outer, 0)
                                    if isinstance(val, Iv) and val.const:
                                        env[t.id] = val
                        outer = outer.parent
                    ok_all = True
                    for test, positive in conds:
                        t2 = copy.deepcopy(test)
                        for x in ast.walk(t2):
                            for fld, val in ast.iter_fields(x):
                                if isinstance(val, ast.Call) and isinstance(val.func, ast.Name) and "getter" in val.func.id:
                                    setattr(x, fld, ast.Constant(v))
                                elif isinstance(val, list):
                                    for i, e in enumerate(val):
                                        if isinstance(e, ast.Call) and isinstance(e.func, ast.Name) and "getter" in e.func.id:
                                            val[i] = ast.Constant(v)
                        ast.fix_missing_locations(t2)
                        I = interp(ctx)
                        r = I.ev(t2, State(dict(env)), g, 0)
                        rr.states += 1
                        if not (isinstance(r, Iv) and r.const):
                            bad = bad or (count, v, "test not decided: " + unparse(test)[:50])
                            ok_all = False
                            break
                        if bool(r.lo) != positive:
                            ok_all = False
                    written = ok_all
                    if bad is None and (v >= T) and not written:
                        bad = (count, v, f"fraction {v} has a digit within the first {count} of {max_count} places but no separator is written")
                if bad:
                    break
            if bad:
                break
        if bad:
            rr.fail(g.qual, f"separator action is conditional (`{unparse(conds[0][0])[:60]}`): {bad[2]} (count={bad[0]})", ctx.loc(g, a))
        else:
            rr.ok({"action": g.qual, "separator": "conditional, true whenever a digit follows"})
    return rr


@rule("C17")
def r17_7_sign_predicates(ctx: Ctx) -> RuleResult:
    """The sign character of an Offset / Duration is chosen by the `non_negative_predicate` handed to add_required_sign /
    add_negative_only_sign; the magnitude is then written from absolute components.  The predicate must therefore be true exactly
    for values >= zero - a predicate that looks at one component only (the hours) writes `+` for small negative values, which
    every reader takes for a positive value.  Each predicate is evaluated by the abstract interpreter on sample values around
    zero and around every component boundary."""
    from ..absint import Iv, Obj, State
    from ..kit import bind_args
    from ..oblig import interp

    rr = RuleResult("R17.7", "sign predicates of Offset and Duration patterns are true exactly for non-negative values (evaluated around zero and the component boundaries)", min_instances=4)
    M = ctx.M
    npd = M.fold_class_const("PyodaConstants", "NANOSECONDS_PER_DAY")
    samples = {
        "Offset": [("seconds", s, Obj("Offset", {mangle("Offset", "__seconds"): Iv(s, s)}), s >= 0) for s in (0, 1, -1, 59, -59, 60, -60, 1800, -1800, 3599, -3599, 3600, -3600, 3601, -3601, 64800, -64800)],
        "Duration": [("days/nanos", (d, n), Obj("Duration", {mangle("Duration", "__days"): Iv(d, d), mangle("Duration", "__nano_of_day"): Iv(n, n)}), d >= 0) for d in (-2, -1, 0, 1) for n in (0, 1, npd - 1)],
    }
    for f in sorted(set(M.func_of_node.values()), key=lambda x: x.qual):
        if isinstance(f.node, ast.Lambda) or "/text/" not in f.mod.rel:
            continue
        for c in own_nodes(f.node):
            if not (isinstance(c, ast.Call) and isinstance(c.func, ast.Attribute) and c.func.attr in ("add_required_sign", "add_negative_only_sign")):
                continue
            tg, how = ctx.R.callees(c, f, count=False)
            if how != "resolved" or not tg:
                continue
            pe = bind_args(c, tg[0]).get("non_negative_predicate")
            if pe is None:
                continue
            rr.inst()
            pred = None
            if isinstance(pe, ast.Lambda):
                pred = next((l for l in f.lambdas if l.node is pe), None)
            elif isinstance(pe, ast.Name):
                pred = f.nested.get(pe.id) or (f.parent.nested.get(pe.id) if f.parent else None)
            if pred is None:
                rr.fail(f.qual, f"sign predicate `{unparse(pe)[:50]}` not resolved to a function of this module", ctx.loc(f, c))
                continue
            ann = pred.params[0].annotation if not isinstance(pred.node, ast.Lambda) and pred.params and pred.params[0].annotation is not None else None
            tname = unparse(ann) if ann is not None else ("Duration" if "Duration" in f.qual else "Offset")
            sam = samples.get(tname.strip("'\""))
            if sam is None:
                rr.fail(f.qual, f"sign predicate takes a {tname}: no sample values", ctx.loc(f, c))
                continue
            bad = None
            for label, raw, obj, want in sam:
                I = interp(ctx)
                I.max_depth = 4
                if isinstance(pred.node, ast.Lambda):
                    v = I.ev(pred.node.body, State({pred.node.args.args[0].arg: obj}), f, 0)
                    vals = [v]
                else:
                    rets, _ = I.analyse(pred, params={pred.params[0].arg: obj})
                    vals = [v for v, _ in rets]
                rr.states += 1
                ok = len(vals) >= 1 and all(isinstance(v, Iv) and v.const and bool(v.lo) == want for v in vals)
                if not ok:
                    bad = (label, raw, [repr(v) for v in vals][:2], want)
                    break
            if bad is None:
                rr.ok({"site": f.qual, "predicate": unparse(pe)[:50], "samples": len(sam)})
            else:
                rr.fail(f.qual, f"sign predicate `{unparse(pe)[:40]}` gives {bad[2]} for {tname} {bad[0]}={bad[1]}, which is {'non-negative' if bad[3] else 'negative'}: the sign written does not match the value", ctx.loc(f, c))
    return rr


@rule("C17")
def r17_8_variable_precision_predicates(ctx: Ctx) -> RuleResult:
    """variable_precision_iso formats with the shortest of (full, hour:minute, hour) whose predicate accepts the value.  A pattern
    without a field may only be chosen when that field is zero: the predicate of each alternative must test `== 0` for every
    time component its pattern text has no field for (minute 'm', second 's', fraction 'F'/'f' -> nanosecond_of_second), or the
    component is silently dropped and the text denotes another time."""
    from ..kit import bind_args

    rr = RuleResult("R17.8", "variable-precision ISO patterns: each alternative's predicate requires every component missing from its pattern text to be zero", min_instances=6)
    M = ctx.M
    builder_init = M.find_method(M.cls("CompositePatternBuilder"), "__init__")

    def text_of(e: ast.expr, f) -> str | None:
        if isinstance(e, ast.Attribute) and isinstance(e.value, ast.Name) and f.cls is not None:
            g = M.find_method(f.cls, e.attr)
            if g is not None:
                for n in ast.walk(g.node):
                    if isinstance(n, ast.Call) and isinstance(n.func, ast.Attribute) and n.func.attr == "create_with_invariant_culture" and n.args:
                        v = M.fold(n.args[0], g.cls, g.mod)
                        if isinstance(v, str):
                            return v
        return None

    def atoms_of(pe: ast.expr, f, depth: int = 0) -> set[str] | None:
        body = None
        if isinstance(pe, ast.Lambda):
            body, par = pe.body, pe.args.args[0].arg
        elif isinstance(pe, ast.Name):
            g = f.nested.get(pe.id)
            if g is None:
                return None
            rets = [n.value for n in own_nodes(g.node) if isinstance(n, ast.Return) and n.value is not None]
            if len(rets) != 1:
                return None
            body, par = rets[0], g.params[0].arg
        if body is None:
            return None
        if isinstance(body, ast.Constant) and body.value is True:
            return set()
        conj = body.values if isinstance(body, ast.BoolOp) and isinstance(body.op, ast.And) else [body]
        out = set()
        for c in conj:
            # a conjunct that is a call of a sibling predicate on the same value contributes that predicate's tests
            if isinstance(c, ast.Call) and isinstance(c.func, ast.Name) and len(c.args) == 1 and isinstance(c.args[0], ast.Name) and c.args[0].id == par and depth < 3:
                sub = atoms_of(c.func, f, depth + 1)
                if sub is None:
                    return None
                out |= sub
                continue
            if isinstance(c, ast.Compare) and len(c.ops) == 1 and isinstance(c.ops[0], ast.Eq) and isinstance(c.comparators[0], ast.Constant) and c.comparators[0].value == 0 \
                    and isinstance(c.left, ast.Attribute) and isinstance(c.left.value, ast.Name) and c.left.value.id == par:
                out.add(c.left.attr)
            else:
                return None  # not a plain conjunction of `component == 0`
        return out

    for f in sorted(set(M.func_of_node.values()), key=lambda x: x.qual):
        if isinstance(f.node, ast.Lambda) or not f.mod.rel.endswith(("_local_time_pattern.py", "_local_date_time_pattern.py")):
            continue
        for c in own_nodes(f.node):
            if not (isinstance(c, ast.Call) and unparse(c.func).endswith("CompositePatternBuilder")):
                continue
            b = bind_args(c, builder_init) if builder_init is not None else {}
            from ..kit import inline_locals

            pats = inline_locals(f.node, b.get("patterns")) if b.get("patterns") is not None else None
            preds = inline_locals(f.node, b.get("format_predicates")) if b.get("format_predicates") is not None else None
            if not (isinstance(pats, ast.List) and isinstance(preds, ast.List) and len(pats.elts) == len(preds.elts)):
                rr.inst()
                rr.fail(f.qual, "CompositePatternBuilder call without matching literal pattern / predicate lists", ctx.loc(f, c))
                continue
            for pe, qe in zip(pats.elts, preds.elts):
                rr.inst()
                text = text_of(pe, f)
                if text is None:
                    rr.fail(f.qual, f"pattern text behind `{unparse(pe)}` not found", ctx.loc(f, c))
                    continue
                need = set()
                if "m" not in text:
                    need.add("minute")
                if "s" not in text:
                    need.add("second")
                if "F" not in text and "f" not in text:
                    need.add("nanosecond_of_second")
                got = atoms_of(qe, f)
                if got is None:
                    if need:
                        rr.fail(f.qual, f"predicate `{unparse(qe)[:60]}` for pattern {text!r} is not a conjunction of `component == 0` tests (not decided)", ctx.loc(f, c))
                    else:
                        rr.ok()
                    continue
                equiv = {"nanosecond_of_second": {"nanosecond_of_second", "nanosecond", "tick_of_second"}}
                missing = {n for n in need if not (got & equiv.get(n, {n}))}
                if missing:
                    rr.fail(f.qual, f"pattern {text!r} has no field for {sorted(missing)} but its predicate `{unparse(qe)[:70]}` does not require them to be zero: they are dropped from the text", ctx.loc(f, c))
                else:
                    rr.ok({"pattern": text, "requires zero": sorted(need)})
    return rr


# ---------------------------------------------------------------------------------------------------------------------------
# R17.9  standard pattern letters select the documented ISO shapes

STANDARD_LETTERS: dict[tuple[str, str], list[Any]] = {
    # (parser class, letter) -> token shape of the pattern the letter must select (Noda Time standard pattern documentation)
    ("_LocalDateTimePatternParser", "s"): DATE + ["T"] + HMS,
    ("_LocalDateTimePatternParser", "S"): DATE + ["T"] + HMS + F9,
    ("_LocalDateTimePatternParser", "o"): DATE + ["T"] + HMS + [".", ("f", 7)],
    ("_LocalDateTimePatternParser", "O"): DATE + ["T"] + HMS + [".", ("f", 7)],
    ("_LocalDateTimePatternParser", "R"): DATE + ["T"] + HMS + [".", ("f", 9)],
    ("_LocalTimePatternParser", "o"): HMS + F9,
    ("_LocalTimePatternParser", "O"): HMS + f9,
    ("_LocalDatePatternParser", "R"): DATE,
}


class _Undecided(Exception):
    pass


def _ev_small(e: ast.expr, env: dict[str, Any]) -> Any:
    """Value of a test over string constants: names from env, constants, len(), tuples/lists/sets, == != in not-in < <= > >=,
    and / or / not.  Raises _Undecided for anything else."""
    if isinstance(e, ast.Constant):
        return e.value
    if isinstance(e, ast.Name):
        if e.id in env:
            return env[e.id]
        raise _Undecided(unparse(e))
    if isinstance(e, (ast.Tuple, ast.List, ast.Set)):
        return [_ev_small(x, env) for x in e.elts]
    if isinstance(e, ast.Call) and isinstance(e.func, ast.Name) and e.func.id == "len" and len(e.args) == 1 and not e.keywords:
        return len(_ev_small(e.args[0], env))
    if isinstance(e, ast.UnaryOp) and isinstance(e.op, ast.Not):
        return not _ev_small(e.operand, env)
    if isinstance(e, ast.BoolOp):
        if isinstance(e.op, ast.And):
            return all(_ev_small(v, env) for v in e.values)
        return any(_ev_small(v, env) for v in e.values)
    if isinstance(e, ast.Compare):
        left = _ev_small(e.left, env)
        for op, c in zip(e.ops, e.comparators):
            right = _ev_small(c, env)
            if isinstance(op, ast.Eq):
                ok = left == right
            elif isinstance(op, ast.NotEq):
                ok = left != right
            elif isinstance(op, ast.In):
                ok = left in right
            elif isinstance(op, ast.NotIn):
                ok = left not in right
            elif isinstance(op, ast.Lt):
                ok = left < right
            elif isinstance(op, ast.LtE):
                ok = left <= right
            elif isinstance(op, ast.Gt):
                ok = left > right
            elif isinstance(op, ast.GtE):
                ok = left >= right
            else:
                raise _Undecided(unparse(e))
            if not ok:
                return False
            left = right
        return True
    raise _Undecided(unparse(e))


def _pattern_matches(p: ast.pattern, v: Any, env: dict[str, Any]) -> bool:
    if isinstance(p, ast.MatchValue):
        return _ev_small(p.value, env) == v
    if isinstance(p, ast.MatchOr):
        return any(_pattern_matches(q, v, env) for q in p.patterns)
    if isinstance(p, ast.MatchAs) and p.pattern is None:
        return True
    raise _Undecided(ast.unparse(p))


def _selected_return(stmts: list[ast.stmt], env: dict[str, Any]) -> ast.stmt | None:
    """The Return / Raise statement reached from `stmts` when the tests over env are decided; None when control falls through."""
    for s in stmts:
        if isinstance(s, (ast.Return, ast.Raise)):
            return s
        if isinstance(s, ast.If):
            r = _selected_return(s.body if _ev_small(s.test, env) else s.orelse, env)
            if r is not None:
                return r
        elif isinstance(s, ast.Match):
            v = _ev_small(s.subject, env)
            for case in s.cases:
                if _pattern_matches(case.pattern, v, env) and (case.guard is None or _ev_small(case.guard, env)):
                    r = _selected_return(case.body, env)
                    if r is not None:
                        return r
                    break
        elif isinstance(s, (ast.FunctionDef, ast.Expr, ast.Pass, ast.AnnAssign, ast.Assign, ast.Import, ast.ImportFrom, ast.Assert)):
            if isinstance(s, (ast.Assign, ast.AnnAssign)):
                tg = s.targets[0] if isinstance(s, ast.Assign) else s.target
                if isinstance(tg, ast.Name) and s.value is not None:
                    try:
                        env = {**env, tg.id: _ev_small(s.value, env)}
                    except _Undecided:
                        env = {k: v for k, v in env.items() if k != tg.id}
            continue
        else:
            raise _Undecided(type(s).__name__)
    return None


@rule("C17")
def r17_9_standard_letters(ctx: Ctx) -> RuleResult:
    """A one-letter standard pattern ('s', 'S', 'o', 'O', 'R' ...) is the documented way to ask for an ISO shape: the letter must
    select the implementation whose pattern text has that shape ('s' sortable without fraction, 'S' with optional fraction ...).
    Decided by following parse_pattern with the pattern text set to the letter (if-chains and match statements) to the
    returned implementation property, and tokenising its pattern text."""
    rr = RuleResult("R17.9", "one-letter standard patterns select the implementation whose pattern text has the documented ISO shape", min_instances=8)
    M = ctx.M
    for (cname, letter), want in STANDARD_LETTERS.items():
        rr.inst()
        c = M.cls(cname, required=False)
        f = M.find_method(c, "parse_pattern") if c is not None else None
        if f is None:
            raise AnalysisError(f"{cname}.parse_pattern not found")
        par = [a.arg for a in f.node.args.args if a.arg not in ("self", "cls")][0]
        try:
            r = _selected_return(f.node.body, {par: letter})
        except _Undecided as e:
            raise AnalysisError(f"{f.qual}: cannot follow the dispatch for {letter!r}: {e}") from None
        if not isinstance(r, ast.Return) or r.value is None:
            rr.fail(f.qual, f"standard pattern {letter!r} does not return a pattern", ctx.loc(f, r) if r is not None else f.loc)
            continue
        e = r.value
        text = None
        if isinstance(e, ast.Attribute):
            root = e
            while isinstance(root, ast.Attribute):
                root = root.value
            if isinstance(root, ast.Name):
                text, _where, _how = _pattern_text_of(ctx, f"{root.id}.{e.attr}")
        if text is None:
            rr.fail(f.qual, f"standard pattern {letter!r} returns `{unparse(e)[:80]}`, whose invariant pattern text was not found (not decided)", ctx.loc(f, r))
            continue
        got = _merge(_literal_T(ctx, tokenize(text)))
        if got == want:
            rr.ok({"parser": cname, "letter": letter, "selects": unparse(e).split(".")[-1], "text": text})
        else:
            rr.fail(f.qual, f"standard pattern {letter!r} selects `{unparse(e).split('.')[-1]}` with text {text!r}, which is not the documented shape for that letter", ctx.loc(f, r))
    # standard letters that are expanded to a pattern TEXT (the instant parser replaces "g" by a constant and parses that)
    ip = M.cls("_InstantPatternParser", required=True)
    f = M.find_method(ip, "parse_pattern")
    rr.inst()
    # the one-letter pattern is replaced by a pattern text constant: an assignment of a string constant to the pattern parameter
    # (under `case "g"`, `if pattern == "g"`, or after an early `raise` for every other letter)
    texts = []
    par = [a.arg for a in f.node.args.args if a.arg not in ("self", "cls")][0]
    for n in own_nodes(f.node):
        if isinstance(n, ast.Assign) and any(isinstance(t, ast.Name) and t.id == par for t in n.targets):
            v = M.fold(n.value, ip, ip.mod)
            if isinstance(v, str):
                texts.append((v, n))
    if len(texts) != 1:
        raise AnalysisError(f"{f.qual}: expansion of the standard pattern 'g' not found")
    text, node = texts[0]
    got = _merge(_literal_T(ctx, tokenize(text)))
    if got == EXPECTED["InstantPattern.general"]:
        rr.ok({"parser": ip.name, "letter": "g", "expands to": text})
    else:
        rr.fail(f.qual, f"standard pattern 'g' expands to {text!r}, which is not uuuu-MM-ddTHH:mm:ssZ (absolute year `u`: year-of-era `y` writes 1 BCE and 1 CE alike)", ctx.loc(f, node))
    return rr


# ---------------------------------------------------------------------------------------------------------------------------
# R17.10  a special-cased text replaces the delegate's output, it does not precede it

EMITTERS = {"append", "append_format", "append_left_pad", "append_right_pad"}


def _emission_paths(stmts: list[ast.stmt], count: int, out: list[tuple[int, ast.stmt | None]]) -> int | None:
    """Enumerate paths through If-only statement lists; records (emissions on the path, final statement) for each finished path.
    Returns the running count when control falls off the end, None when every path returned."""
    def emits(n: ast.AST) -> int:
        return sum(1 for x in ast.walk(n) if isinstance(x, ast.Call) and isinstance(x.func, ast.Attribute) and x.func.attr in EMITTERS)

    for i, s in enumerate(stmts):
        if isinstance(s, ast.Return):
            out.append((count + (emits(s.value) if s.value is not None else 0), s))
            return None
        if isinstance(s, ast.Raise):
            return None
        if isinstance(s, ast.If):
            rest = stmts[i + 1:]
            a = _emission_paths(s.body + rest, count + emits(s.test), out)
            b = _emission_paths(s.orelse + rest, count + emits(s.test), out)
            if a is not None:
                out.append((a, None))
            if b is not None:
                out.append((b, None))
            return None
        if isinstance(s, (ast.Expr, ast.Assign, ast.AnnAssign, ast.AugAssign, ast.Pass, ast.Assert)):
            count += emits(s)
            continue
        raise _Undecided(type(s).__name__)
    return count


@rule("C17")
def r17_10_special_case_replaces(ctx: Ctx) -> RuleResult:
    """Wrapper patterns that special-case one value (UTC written as "Z") have a `format` with a branch returning a string
    constant and another delegating to the wrapped pattern.  Their `append_format` must agree: on every path exactly one text
    is emitted (the constant or the delegate's), otherwise the text is "Z+00", which no ISO-8601 reader accepts; and their
    parse side must accept the same constant."""
    rr = RuleResult("R17.10", "wrapper patterns with a special-cased constant text (\"Z\") emit exactly one text per path in append_format and accept the same constant when parsing", min_instances=1)
    M = ctx.M
    for c in sorted((x for lst in M.classes.values() for x in lst), key=lambda x: x.qual):
        if "/text/" not in "/" + c.mod.rel:
            continue
        fm = c.methods.get("format")
        af = c.methods.get("append_format")
        if fm is None or af is None:
            continue
        rets = [n for n in own_nodes(fm.node) if isinstance(n, ast.Return) and n.value is not None]
        consts = [n.value.value for n in rets if isinstance(n.value, ast.Constant) and isinstance(n.value.value, str)]
        consts += [x.value for n in rets if isinstance(n.value, ast.IfExp) for x in (n.value.body, n.value.orelse) if isinstance(x, ast.Constant) and isinstance(x.value, str)]
        deleg = [n for n in rets for x in ast.walk(n.value) if isinstance(x, ast.Call) and isinstance(x.func, ast.Attribute) and x.func.attr == "format"]
        if not consts or not deleg:
            continue
        rr.inst()
        paths: list[tuple[int, ast.stmt | None]] = []
        try:
            tail = _emission_paths(af.node.body, 0, paths)
        except _Undecided as e:
            rr.fail(af.qual, f"append_format of a special-casing wrapper pattern has a {e} statement (paths not enumerated, not decided)", af.loc)
            continue
        if tail is not None:
            paths.append((tail, None))
        bad = [(k, s) for k, s in paths if k != 1]
        if bad:
            k, s = bad[0]
            rr.fail(af.qual, f"a path through append_format emits {k} texts (expected exactly one: the special-case constant {consts[0]!r} replaces the wrapped pattern's output, it does not precede it)", ctx.loc(af, s) if s is not None else af.loc)
            continue
        # the constant written is the constant of format(), and the parse side accepts it
        written = {x.value for x in ast.walk(af.node) if isinstance(x, ast.Constant) and isinstance(x.value, str)} & set(consts)
        if not written:
            rr.fail(af.qual, f"append_format never writes the special-case text {consts[0]!r} that format() returns", af.loc)
            continue
        missing = []
        for nm in ("parse", "parse_partial"):
            g = c.methods.get(nm)
            if g is None:
                continue
            accepted = {x.value for n in own_nodes(g.node) if isinstance(n, ast.If) for x in ast.walk(n.test) if isinstance(x, ast.Constant) and isinstance(x.value, str)}
            if not (accepted & set(consts)):
                missing.append(nm)
        if missing:
            rr.fail(c.qual, f"{', '.join(missing)} does not accept the special-case text {consts[0]!r} that format() writes", f"{c.mod.rel}:{c.node.lineno}")
        else:
            rr.ok({"class": c.qual, "constant": consts[0], "paths": len(paths)})
    return rr


# ---------------------------------------------------------------------------------------------------------------------------
# R17.11  the parsed offset range is exactly the Offset range

@rule("C17")
def r17_11_offset_bucket_range(ctx: Ctx) -> RuleResult:
    """`+18:00` / `-18:00` are valid ISO offsets and the extremes of Offset; the out-of-range guard of the parse bucket must
    reject exactly |seconds| > 18 h.  The guard's test is evaluated by the abstract interpreter at the four boundary values."""
    from ..absint import Iv, State
    from ..oblig import interp

    rr = RuleResult("R17.11", "the offset parse bucket's out-of-range guard rejects exactly the totals outside [-18:00, +18:00] (evaluated at -64801, -64800, 64800, 64801 seconds)", min_instances=4)
    M = ctx.M
    f = M.func("_OffsetParseBucket.calculate_value")
    guards = []
    for n in own_nodes(f.node):
        if isinstance(n, ast.If) and any(isinstance(x, ast.Return) and x.value is not None and "invalid" in unparse(x.value) for x in n.body):
            guards.append(n)
    if len(guards) != 1:
        raise AnalysisError(f"{f.qual}: expected one out-of-range guard, found {len(guards)}")
    g = guards[0]
    locals_ = {t.id for n in own_nodes(f.node) if isinstance(n, (ast.Assign, ast.AnnAssign)) for t in ([n.target] if isinstance(n, ast.AnnAssign) else n.targets) if isinstance(t, ast.Name)}
    names = {x.id for x in ast.walk(g.test) if isinstance(x, ast.Name)} & locals_
    if len(names) != 1:
        raise AnalysisError(f"{f.qual}: the guard tests {sorted(names)} (expected the one local holding the total seconds)")
    var = names.pop()
    for s, want in ((-64801, 1), (-64800, 0), (0, 0), (64800, 0), (64801, 1)):
        rr.inst()
        v = interp(ctx).ev(g.test, State({var: Iv(s, s)}), f, 0)
        if isinstance(v, Iv) and v.lo == v.hi == want:
            rr.ok({"seconds": s, "rejected": bool(want)})
        elif isinstance(v, Iv) and v.lo == v.hi:
            rr.fail(f.qual, f"a parsed total of {s} seconds is {'rejected' if v.lo else 'accepted'}; the Offset range is [-64800, 64800] inclusive", ctx.loc(f, g))
        else:
            rr.fail(f.qual, f"the out-of-range guard `{unparse(g.test)[:80]}` could not be evaluated at {s} seconds (not decided)", ctx.loc(f, g))
    # the value that is built: sign x (hours, minutes, seconds), evaluated from exact bucket fields
    from ..absint import Obj

    for h, m_, s_, neg in ((5, 30, 15, 0), (5, 30, 15, 1), (0, 0, 30, 1), (17, 59, 59, 1), (0, 0, 0, 1), (18, 0, 0, 0)):
        rr.inst()
        seen: list = []

        def on_call(c, callee, bound, st, fn, seen=seen):
            if callee.name == "from_seconds":
                seen.append(bound.get("seconds"))

        I = interp(ctx)
        I.on_call = on_call
        so = Obj("_OffsetParseBucket", {"_hours": Iv(h, h), "_minutes": Iv(m_, m_), "_seconds": Iv(s_, s_), "_is_negative": Iv(neg, neg)})
        I.analyse(f, self_obj=so, params={})
        want = (-1 if neg else 1) * (3600 * h + 60 * m_ + s_)
        got = {int(v.lo) for v in seen if isinstance(v, Iv) and v.lo == v.hi}
        if got == {want}:
            rr.ok({"fields": (h, m_, s_, bool(neg)), "seconds": want})
        else:
            rr.fail(f.qual, f"parsed fields {'-' if neg else '+'}{h:02d}:{m_:02d}:{s_:02d} build an offset of {sorted(got) or seen} seconds, not {want}: the sign must apply to the whole of hours, minutes and seconds", ctx.loc(f))
    return rr


@rule("C17")
def r17_13_hour_24(ctx: Ctx) -> RuleResult:
    """ISO 8601 writes midnight at the end of a day as 24:00:00.  The date-time bucket accepts it by turning hour 24 into hour 0 of
    the following day: where it recognises `_hours_24 == 24` it must reset the time bucket's hour to 0 BEFORE the time bucket
    computes its value (which rejects 24 as out of range) and remember to add the day.  Checked on the statements of
    _combine_buckets: the reset is under the `== 24` test and precedes the time bucket's _calculate_value call; the flag it sets
    is read afterwards."""
    rr = RuleResult("R17.13", "hour 24 (ISO end-of-day midnight): the date-time bucket resets the time bucket's hour to 0 under the `== 24` test before the time value is calculated, and adds a day afterwards", min_instances=1)
    M = ctx.M
    f = M.func("_LocalDateTimeParseBucket._combine_buckets")
    rr.inst()
    calc = next((n for n in own_nodes(f.node) if isinstance(n, ast.Call) and isinstance(n.func, ast.Attribute) and n.func.attr == "_calculate_value" and "time" in unparse(n.func.value)), None)
    if calc is None:
        raise AnalysisError(f"{f.qual}: time bucket's _calculate_value call not found")
    from ..exc import facts_at

    reset = None
    test = None
    for s_ in own_nodes(f.node):
        if isinstance(s_, ast.Assign) and any(isinstance(t, ast.Attribute) and t.attr == "_hours_24" for t in s_.targets) and isinstance(s_.value, ast.Constant) and s_.value.value == 0 and s_.lineno < calc.lineno:
            facts = facts_at(s_)
            is24 = any(op == "==" and {a.split(".")[-1], b} >= {"_hours_24", "24"} for a, op, b in facts) or any(op == "==" and {b.split(".")[-1], a} >= {"_hours_24", "24"} for a, op, b in facts)
            if not is24:
                # the comparison may have been given a name first: `hour_24 = bucket._hours_24 == 24; if hour_24: ...`
                for a, op, b in facts:
                    if op == "truthy" and a.isidentifier():
                        defs = [d.value for d in own_nodes(f.node) if isinstance(d, (ast.Assign, ast.AnnAssign)) and d.value is not None and isinstance((d.targets[0] if isinstance(d, ast.Assign) else d.target), ast.Name) and (d.targets[0] if isinstance(d, ast.Assign) else d.target).id == a]
                        if defs and all(isinstance(d, ast.Compare) and "_hours_24" in unparse(d) and "24" in unparse(d) and isinstance(d.ops[0], ast.Eq) for d in defs):
                            is24 = True
            if is24:
                reset = s_
                test = s_
    plus_day = any(isinstance(n, ast.Call) and isinstance(n.func, ast.Attribute) and n.func.attr in ("plus_days", "next_day") for n in own_nodes(f.node))
    if reset is not None and plus_day:
        rr.ok({"function": f.qual, "reset": unparse(reset), "before": unparse(calc)[:50]})
    else:
        rr.fail(f.qual, "hour 24 is not turned into hour 0 (under the `_hours_24 == 24` test, before the time bucket calculates its value) plus one day: `2020-02-28T24:00:00`, valid ISO 8601, is rejected or lands on the wrong day", ctx.loc(f, test) if test is not None else ctx.loc(f))
    return rr


@rule("C17")
def r17_14_offset_field_getters(ctx: Ctx) -> RuleResult:
    """The H / m / s fields of every Offset pattern (and so of every fixed-zone id `UTC-05:30:15`) are written from getters handed
    to _handle_padded_field.  Each getter is evaluated by the abstract interpreter on exact offsets of both signs and must return
    the hours / minutes / seconds of the MAGNITUDE: Python's floor modulo on a negative offset gives 60 - s, C-style remainder
    was what upstream's `%` meant."""
    from ..absint import Iv, Obj
    from ..oblig import interp

    rr = RuleResult("R17.14", "the H / m / s getters of the Offset patterns return hours, minutes and seconds of the magnitude (evaluated for offsets of both signs)", min_instances=3)
    M = ctx.M
    c = M.cls("_OffsetPatternParser", required=True)
    want = {"H": lambda a: a // 3600, "m": lambda a: a % 3600 // 60, "s": lambda a: a % 60}
    found = {}
    for n in ast.walk(c.node):
        if isinstance(n, ast.Dict):
            for k, v in zip(n.keys, n.values):
                if isinstance(k, ast.Constant) and k.value in want and isinstance(v, ast.Call) and unparse(v.func).endswith("_handle_padded_field"):
                    getters = [a for a in v.args if isinstance(a, ast.Name) and "get" in a.id]
                    if len(getters) == 1:
                        found[k.value] = getters[0].id
    if set(found) != set(want):
        raise AnalysisError(f"_OffsetPatternParser: the H / m / s padded fields and their getters were not all found ({sorted(found)})")
    samples = (0, 1, -1, 15, -15, 59, -59, 60, -60, 61, -61, 1815, -1815, 3599, -3599, 3600, -3600, 19815, -19815, 19845, -19845, 64799, -64799, 64800, -64800)
    if ctx.tier != "quick":  # thorough: EVERY offset of the type's range, second by second
        samples = tuple(range(-64800, 64801))
    for ch, gname in sorted(found.items()):
        g = next((x for x in c.all_defs if x.name in (gname, mangle(c.name, gname)) or mangle(c.name, x.name) == mangle(c.name, gname)), None)
        if g is None or isinstance(g.node, ast.Lambda):
            raise AnalysisError(f"_OffsetPatternParser: getter `{gname}` of field {ch!r} not resolved")
        rr.inst()
        bad = None
        und = None
        for s in samples:
            I = interp(ctx)
            I.max_depth = 4
            r2, _ = I.analyse(g, params={g.params[0].arg: Obj("Offset", {mangle("Offset", "__seconds"): Iv(s, s)})})
            rr.states += 1
            vals = {int(v.lo) for v, _ in r2 if isinstance(v, Iv) and v.const}
            if len(r2) >= 1 and len(vals) == 1 and all(isinstance(v, Iv) and v.const for v, _ in r2):
                got = vals.pop()
                if got != want[ch](abs(s)):
                    bad = bad or (s, got)
            else:
                und = und or s
        if bad is not None:
            s, got = bad
            rr.fail(g.qual, f"field {ch!r} of an offset of {s} seconds is written as {got}, not {want[ch](abs(s))}: the text (and the id of the fixed zone built from it) names a different offset", ctx.loc(g))
        elif und is not None:
            rr.undecided.append(f"{g.qual}: not evaluated exactly at {und} seconds")
            rr.ok()
        else:
            rr.ok({"field": ch, "getter": g.qual, "offsets evaluated": len(samples)})
    return rr
