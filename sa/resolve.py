"""Annotation-driven expression typing and call resolution on top of the program model (part of E0)."""
from __future__ import annotations

import ast
from typing import Any, Iterator

from .model import Cls, Func, Model, mangle, unparse

BUILTIN_SCALARS = {"int", "str", "bool", "float", "bytes", "None", "object", "Any", "Decimal"}

DUNDER = {
    ast.Add: "__add__", ast.Sub: "__sub__", ast.Mult: "__mul__", ast.Div: "__truediv__", ast.FloorDiv: "__floordiv__",
    ast.Mod: "__mod__", ast.BitAnd: "__and__", ast.BitOr: "__or__", ast.BitXor: "__xor__",
    ast.Lt: "__lt__", ast.LtE: "__le__", ast.Gt: "__gt__", ast.GtE: "__ge__", ast.Eq: "__eq__", ast.NotEq: "__ne__",
    ast.In: "__contains__", ast.NotIn: "__contains__", ast.USub: "__neg__",
}
RDUNDER = {ast.Add: "__radd__", ast.Sub: "__rsub__", ast.Mult: "__rmul__"}


class Scope:
    """Typing scope of one function: parameter annotations + flow-insensitive local variable types."""

    def __init__(self, R: "Resolver", fn: Func) -> None:
        self.R = R
        self.fn = fn
        self.vars: dict[str, Any] = {}
        self.defs: dict[str, list[ast.expr]] = {}
        self.local_imports: dict[str, tuple[str, str | None]] = {}
        M = R.M
        # enclosing function scopes first (closures)
        if fn.parent is not None:
            ps = R.scope(fn.parent)
            self.vars.update(ps.vars)
            self.local_imports.update(ps.local_imports)
        node = fn.node
        for a in fn.params:
            t = M.ann_type(a.annotation, fn.mod)
            if t is not None:
                self.vars[a.arg] = t
        if node.args.vararg is not None:
            self.vars[node.args.vararg.arg] = ("list", M.ann_type(node.args.vararg.annotation, fn.mod))
        sn = fn.self_name
        if sn is not None and fn.cls is not None and fn.parent is None:
            if fn.kind == "classmethod":
                self.vars[sn] = ("type", fn.cls.name)
            else:
                # metaclass property: `cls`/`self` is the class object of the class using this metaclass
                if M.is_subclass(fn.cls, "type"):
                    target = M.class_having_metaclass(fn.cls)
                    self.vars[sn] = ("type", target.name) if target is not None else fn.cls.name
                else:
                    self.vars[sn] = fn.cls.name
        if isinstance(node, ast.Lambda):
            return
        M._collect_imports([s for s in ast.walk(node) if isinstance(s, (ast.Import, ast.ImportFrom))], self.local_imports)
        # assignments (two passes so forward references settle)
        for _ in range(2):
            for s in self._own_nodes(node):
                if isinstance(s, ast.AnnAssign) and isinstance(s.target, ast.Name):
                    t = M.ann_type(s.annotation, fn.mod)
                    if t is not None:
                        self.vars[s.target.id] = t
                    if s.value is not None:
                        lst = self.defs.setdefault(s.target.id, [])
                        if not any(v is s.value for v in lst):
                            lst.append(s.value)
                elif isinstance(s, ast.Assign):
                    for tg in s.targets:
                        self._bind(tg, s.value)
                elif isinstance(s, ast.NamedExpr) and isinstance(s.target, ast.Name):
                    self._bind(s.target, s.value)
                elif isinstance(s, (ast.For, ast.comprehension)):
                    it = R.type_of(s.iter, self)
                    if isinstance(it, tuple) and it[0] == "list":
                        self._bind_type(s.target, it[1])
                    elif isinstance(it, tuple) and it[0] == "dict":
                        self._bind_type(s.target, it[1])
                elif isinstance(s, ast.With):
                    for it in s.items:
                        if it.optional_vars is not None and isinstance(it.optional_vars, ast.Name):
                            t = R.type_of(it.context_expr, self)
                            if t is not None and it.optional_vars.id not in self.vars:
                                self.vars[it.optional_vars.id] = t

    @staticmethod
    def _own_nodes(fn_node: ast.AST) -> Iterator[ast.AST]:
        stack = list(ast.iter_child_nodes(fn_node))
        while stack:
            n = stack.pop()
            if isinstance(n, (ast.FunctionDef, ast.AsyncFunctionDef, ast.ClassDef, ast.Lambda)):
                continue
            yield n
            stack.extend(ast.iter_child_nodes(n))

    def _bind(self, tg: ast.expr, value: ast.expr) -> None:
        if isinstance(tg, ast.Name):
            lst = self.defs.setdefault(tg.id, [])
            if not any(v is value for v in lst):
                lst.append(value)
            if tg.id in self.vars and self.vars[tg.id] is not None:
                return
            t = self.R.type_of(value, self)
            if t is not None:
                self.vars[tg.id] = t
        elif isinstance(tg, ast.Tuple):
            t = self.R.type_of(value, self)
            if isinstance(t, tuple) and t[0] == "tuple" and len(t[1]) == len(tg.elts):
                for e, et in zip(tg.elts, t[1]):
                    self._bind_type(e, et)
            elif isinstance(value, ast.Tuple) and len(value.elts) == len(tg.elts):
                for e, v in zip(tg.elts, value.elts):
                    self._bind(e, v)

    def _bind_type(self, tg: ast.expr, t: Any) -> None:
        if isinstance(tg, ast.Name):
            if t is not None and self.vars.get(tg.id) is None:
                self.vars[tg.id] = t
        elif isinstance(tg, ast.Tuple) and isinstance(t, tuple) and t[0] == "tuple" and len(t[1]) == len(tg.elts):
            for e, et in zip(tg.elts, t[1]):
                self._bind_type(e, et)


class Resolver:
    def __init__(self, M: Model) -> None:
        self.M = M
        self._scopes: dict[int, Scope] = {}
        self._building: set[int] = set()
        self.stats = {"calls": 0, "resolved": 0, "fallback": 0, "external": 0, "unresolved": 0}

    def scope(self, fn: Func) -> Scope:
        k = id(fn)
        if k not in self._scopes:
            if k in self._building:
                s = Scope.__new__(Scope)
                s.R, s.fn, s.vars, s.defs, s.local_imports = self, fn, {}, {}, {}
                return s
            self._building.add(k)
            try:
                self._scopes[k] = Scope(self, fn)
            finally:
                self._building.discard(k)
        return self._scopes[k]

    # ------------------------------------------------------------------ typing
    def type_of(self, e: ast.expr | None, sc: Scope) -> Any:
        M = self.M
        if e is None:
            return None
        if isinstance(e, ast.Constant):
            v = e.value
            if isinstance(v, bool):
                return "bool"
            if isinstance(v, int):
                return "int"
            if isinstance(v, str):
                return "str"
            if isinstance(v, float):
                return "float"
            if v is None:
                return "None"
            if isinstance(v, bytes):
                return "bytes"
            return None
        if isinstance(e, ast.Name):
            if e.id in sc.vars:
                return sc.vars[e.id]
            if M.cls(e.id, required=False) is not None and e.id in M.classes:
                return ("type", e.id)
            if sc.fn.name == "<classbody>" and sc.fn.cls is not None:
                cm = sc.fn.cls.methods.get(mangle(sc.fn.cls.name, e.id)) or sc.fn.cls.methods.get(e.id)
                if cm is not None:
                    return ("func", cm)
            if e.id in sc.fn.mod.funcs:
                return ("func", sc.fn.mod.funcs[e.id])
            if e.id in M.module_funcs:
                cands = M.module_funcs[e.id]
                imp = sc.local_imports.get(e.id) or sc.fn.mod.imports.get(e.id)
                if imp is not None and len(cands) > 1:
                    tail = imp[0].lstrip(".").split(".")[-1] if imp[0] else ""
                    for cf in cands:
                        if tail and cf.mod.rel.endswith("/" + tail + ".py"):
                            return ("func", cf)
                return ("func", cands[0])
            if sc.fn.parent is not None or sc.fn.nested:
                f = self._lookup_nested(sc.fn, e.id)
                if f is not None:
                    return ("func", f)
            if e.id in sc.fn.mod.assigns:
                return self._module_var_type(sc.fn, e.id)
            return None
        if isinstance(e, ast.Attribute):
            rt = self.type_of(e.value, sc)
            return self.attr_type(rt, e.attr, e, sc)
        if isinstance(e, ast.Call):
            return self.call_type(e, sc)
        if isinstance(e, ast.BinOp):
            lt, rt = self.type_of(e.left, sc), self.type_of(e.right, sc)
            dn = DUNDER.get(type(e.op))
            if isinstance(lt, str) and lt not in BUILTIN_SCALARS and dn:
                c = M.cls(lt, required=False)
                if c is not None:
                    f = M.find_method(c, dn)
                    if f is not None:
                        t = self.ret_type(f)
                        if isinstance(t, tuple) and t[0] == "union" and isinstance(rt, str):
                            t = self._pick_overload(f, rt) or t
                        return t
            if isinstance(rt, str) and rt not in BUILTIN_SCALARS and type(e.op) in RDUNDER:
                c = M.cls(rt, required=False)
                if c is not None:
                    f = M.find_method(c, RDUNDER[type(e.op)])
                    if f is not None:
                        return self.ret_type(f)
            if lt == "int" and rt == "int" and not isinstance(e.op, ast.Div):
                return "int"
            if lt in ("int", "float") and rt in ("int", "float"):
                return "float"
            if lt == "str":
                return "str"
            return None
        if isinstance(e, ast.UnaryOp):
            t = self.type_of(e.operand, sc)
            if isinstance(e.op, ast.Not):
                return "bool"
            if isinstance(t, str) and t not in BUILTIN_SCALARS and isinstance(e.op, ast.USub):
                c = M.cls(t, required=False)
                if c is not None:
                    f = M.find_method(c, "__neg__")
                    if f is not None:
                        return self.ret_type(f)
            return t
        if isinstance(e, ast.IfExp):
            return self.type_of(e.body, sc) or self.type_of(e.orelse, sc)
        if isinstance(e, ast.NamedExpr):
            return self.type_of(e.value, sc)
        if isinstance(e, (ast.Compare, ast.BoolOp)):
            if isinstance(e, ast.BoolOp):
                return self.type_of(e.values[-1], sc)
            return "bool"
        if isinstance(e, ast.Tuple):
            return ("tuple", [self.type_of(x, sc) for x in e.elts])
        if isinstance(e, (ast.List, ast.ListComp, ast.GeneratorExp, ast.Set, ast.SetComp)):
            if isinstance(e, (ast.List, ast.Set)) and e.elts:
                return ("list", self.type_of(e.elts[0], sc))
            return ("list", None)
        if isinstance(e, (ast.Dict, ast.DictComp)):
            return ("dict", None, None)
        if isinstance(e, ast.JoinedStr):
            return "str"
        if isinstance(e, ast.Subscript):
            t = self.type_of(e.value, sc)
            if isinstance(t, tuple):
                if t[0] == "type":
                    return t  # generic alias: ParseResult[Offset]
                if t[0] == "list":
                    return t if isinstance(e.slice, ast.Slice) else t[1]
                if t[0] == "dict":
                    return t[2]
                if t[0] == "tuple":
                    i = M.fold(e.slice)
                    if isinstance(i, int) and -len(t[1]) <= i < len(t[1]):
                        return t[1][i]
            if t in ("str", "bytes"):
                return t if isinstance(e.slice, ast.Slice) or t == "str" else "int"
            if isinstance(t, str) and t not in BUILTIN_SCALARS:
                c = M.cls(t, required=False)
                if c is not None:
                    f = M.find_method(c, "__getitem__")
                    if f is not None:
                        return self.ret_type(f)
            return None
        if isinstance(e, ast.Lambda):
            f = M.func_of_node.get(id(e))
            return ("func", f) if f else None
        if isinstance(e, ast.Await):
            return self.type_of(e.value, sc)
        return None

    def _lookup_nested(self, fn: Func | None, name: str) -> Func | None:
        while fn is not None:
            if name in fn.nested:
                return fn.nested[name]
            fn = fn.parent
        return None

    def _module_var_type(self, fn: Func, name: str) -> Any:
        val = fn.mod.assigns.get(name)
        if isinstance(val, ast.Call):
            fnm = unparse(val.func).split(".")[-1]
            if self.M.cls(fnm, required=False) is not None:
                return fnm
        return None

    def _pick_overload(self, f: Func, arg_t: str) -> Any:
        """For dunder methods returning a union keyed on the argument type (LocalTime.__sub__), use isinstance arms."""
        for s in ast.walk(f.node):
            if isinstance(s, ast.If) and isinstance(s.test, ast.Call) and unparse(s.test.func) == "isinstance" and len(s.test.args) == 2:
                if unparse(s.test.args[1]) == arg_t:
                    for r in ast.walk(s):
                        if isinstance(r, ast.Return) and r.value is not None:
                            return self.type_of(r.value, self.scope(f))
        return None

    def ret_type(self, f: Func) -> Any:
        if isinstance(f.node, ast.Lambda):
            return self.type_of(f.node.body, self.scope(f))
        t = self.M.ann_type(f.node.returns, f.mod)
        return t

    def attr_type(self, rt: Any, attr: str, node: ast.AST | None, sc: Scope) -> Any:
        M = self.M
        if rt is None:
            return None
        mcls = M.mangling_class(node) if node is not None else None
        mattr = mangle(mcls, attr) if attr.startswith("__") and not attr.endswith("__") else attr
        if isinstance(rt, tuple):
            if rt[0] == "type" and isinstance(rt[1], str):
                c = M.cls(rt[1], required=False)
                if c is None:
                    return None
                f = M.find_method(c, mattr)
                if f is not None:
                    if f.kind == "property":
                        return self.ret_type(f)
                    return ("bound", f, rt[1], True)
                hit = M.find_class_attr(c, mattr)
                ann = M.find_annot(c, mattr)
                if ann is not None:
                    return M.ann_type(ann, c.mod)
                if hit is not None:
                    k, val = hit
                    if isinstance(val, ast.Call):
                        t = unparse(val.func).split(".")[-1]
                        if M.cls(t, required=False) is not None:
                            return t
                    v = M.fold(val, k, k.mod)
                    if isinstance(v, bool):
                        return "bool"
                    if isinstance(v, int):
                        return "int"
                    if isinstance(v, str):
                        return "str"
                    # enum member
                    if M.is_subclass(c, "IntEnum") or M.is_subclass(c, "Enum") or M.is_subclass(c, "IntFlag") or M.is_subclass(c, "Flag"):
                        return c.name
                    return None
                for k in M.mro(c):
                    if attr in k.nested:
                        return ("type", k.nested[attr].qual)
                mf = M.find_meta_method(c, mattr)
                if mf is not None:
                    if mf.kind == "property":
                        return self.ret_type(mf)
                    return ("bound", mf, rt[1], True)
                if M.is_subclass(c, "IntEnum") or M.is_subclass(c, "Enum"):
                    if attr in c.assigns:
                        return c.name
                return None
            if rt[0] == "union":
                for t in rt[1]:
                    r = self.attr_type(t, attr, node, sc)
                    if r is not None:
                        return r
                return None
            if rt[0] == "list" and attr in ("append", "extend", "insert", "pop", "sort", "clear", "remove"):
                return ("ext", f"list.{attr}")
            if rt[0] == "dict":
                if attr == "get":
                    return ("ext_ret", rt[2])
                if attr in ("keys",):
                    return ("ext_ret", ("list", rt[1]))
                if attr in ("values",):
                    return ("ext_ret", ("list", rt[2]))
                if attr == "items":
                    return ("ext_ret", ("list", ("tuple", [rt[1], rt[2]])))
                return ("ext", f"dict.{attr}")
            return None
        if isinstance(rt, str):
            if rt in BUILTIN_SCALARS:
                return ("ext", f"{rt}.{attr}")
            c = M.cls(rt, required=False)
            if c is None:
                return ("ext", f"{rt}.{attr}")
            f = M.find_method(c, mattr)
            if f is not None:
                if f.kind == "property":
                    return self.ret_type(f)
                return ("bound", f, rt, False)
            ann = M.find_annot(c, mattr)
            if ann is not None:
                return M.ann_type(ann, c.mod)
            for k in M.mro(c):
                if attr in k.nested:
                    return ("type", k.nested[attr].qual)
            # instance field assigned in a constructor: infer from the assigned expression
            t = self._field_type(c, mattr)
            if t is not None:
                return t
            hit = M.find_class_attr(c, mattr)
            if hit is not None:
                v = M.fold(hit[1], hit[0], hit[0].mod)
                if isinstance(v, bool):
                    return "bool"
                if isinstance(v, int):
                    return "int"
                if isinstance(v, str):
                    return "str"
                if isinstance(hit[1], ast.Call):
                    t = unparse(hit[1].func).split(".")[-1]
                    if M.cls(t, required=False) is not None:
                        return t
            if attr == "name" and (M.is_subclass(c, "IntEnum") or M.is_subclass(c, "Enum")):
                return "str"
            if attr == "value" and (M.is_subclass(c, "IntEnum") or M.is_subclass(c, "Enum")):
                return "int"
            return None
        return None

    _field_memo: dict[tuple[int, str], Any] = {}

    def _field_type(self, c: Cls, mattr: str) -> Any:
        key = (id(c), mattr)
        if key in self._field_memo:
            return self._field_memo[key]
        self._field_memo[key] = None
        res = None
        for k in self.M.mro(c):
            for f in k.all_defs:
                if isinstance(f.node, ast.Lambda):
                    continue
                for s in ast.walk(f.node):
                    tg = None
                    val = None
                    if isinstance(s, ast.Assign) and len(s.targets) == 1:
                        tg, val = s.targets[0], s.value
                    elif isinstance(s, ast.AnnAssign):
                        tg, val = s.target, s.value
                        if isinstance(tg, ast.Attribute) and isinstance(tg.value, ast.Name) and tg.value.id == "self" and mangle(k.name, tg.attr) == mattr:
                            res = self.M.ann_type(s.annotation, k.mod)
                            if res is not None:
                                self._field_memo[key] = res
                                return res
                    if isinstance(tg, ast.Attribute) and isinstance(tg.value, ast.Name) and tg.value.id == "self" and val is not None:
                        if mangle(k.name, tg.attr) == mattr:
                            t = self.type_of(val, self.scope(f))
                            if t is not None and t != "None":
                                res = t
                                self._field_memo[key] = res
                                return res
        return res

    def call_type(self, call: ast.Call, sc: Scope) -> Any:
        M = self.M
        fx = call.func
        if isinstance(fx, ast.Name):
            n = fx.id
            if n in ("int", "len", "abs", "hash", "ord", "round") and n not in sc.vars:
                return "int"
            if n in ("str", "repr", "chr", "format") and n not in sc.vars:
                return "str"
            if n in ("bool", "isinstance", "callable", "hasattr", "issubclass", "any", "all") and n not in sc.vars:
                return "bool"
            if n == "float":
                return "float"
            if n in ("min", "max") and call.args:
                return self.type_of(call.args[0], sc)
            if n in ("sorted", "list", "tuple", "reversed", "set", "frozenset") and call.args:
                t = self.type_of(call.args[0], sc)
                return t if isinstance(t, tuple) and t[0] == "list" else ("list", None)
            if n == "super":
                if sc.fn.cls is not None:
                    return ("super", sc.fn.cls.name)
                return None
            if n == "divmod":
                return ("tuple", ["int", "int"])
            if n == "cast" and len(call.args) == 2:
                return M.ann_type(call.args[0], sc.fn.mod)
            if n == "range":
                return ("list", "int")
            if n == "enumerate" and call.args:
                t = self.type_of(call.args[0], sc)
                return ("list", ("tuple", ["int", t[1] if isinstance(t, tuple) and t[0] == "list" else None]))
            if n == "zip":
                ts = [self.type_of(a, sc) for a in call.args]
                return ("list", ("tuple", [t[1] if isinstance(t, tuple) and t[0] == "list" else None for t in ts]))
        ft = self.type_of(fx, sc)
        if ft is None:
            return None
        if isinstance(ft, tuple):
            if ft[0] == "type":
                return ft[1]
            if ft[0] in ("bound", "func"):
                f = ft[1]
                t = self.ret_type(f)
                if isinstance(t, str) and M.cls(t, required=False) is None and t not in BUILTIN_SCALARS and not isinstance(f.node, ast.Lambda):
                    # TypeVar-returning identity helpers (_check_not_null): result has the type of the matching argument
                    for i, p in enumerate(f.value_params):
                        if p.annotation is not None and unparse(p.annotation) == t and i < len(call.args):
                            return self.type_of(call.args[i], sc)
                return t
            if ft[0] == "callable":
                return ft[1]
            if ft[0] == "ext_ret":
                return ft[1]
            if ft[0] == "super":
                return ft
        return None

    # ------------------------------------------------------------------ call resolution
    def callees(self, call: ast.Call, fn: Func, count: bool = True) -> tuple[list[Func], str]:
        """Resolve a call expression to repo functions.

        Returns (targets, how) with how in: 'resolved', 'fallback' (name-based over-approximation), 'external', 'unresolved'.
        """
        M = self.M
        sc = self.scope(fn)
        fx = call.func
        targets: list[Func] = []
        how = "unresolved"
        # super().method(...)
        if isinstance(fx, ast.Attribute) and isinstance(fx.value, ast.Call) and isinstance(fx.value.func, ast.Name) and fx.value.func.id == "super":
            if fn.cls is not None:
                for k in M.mro(fn.cls)[1:]:
                    if fx.attr in k.methods:
                        targets = [k.methods[fx.attr]]
                        how = "resolved"
                        break
                else:
                    how = "external"  # object.__new__ / object.__init__
        else:
            ft = self.type_of(fx, sc)
            if isinstance(ft, tuple) and ft[0] == "bound":
                f = ft[1]
                targets = [f]
                if not ft[3]:
                    # instance dispatch: fan out to overrides when receiver type is a base class
                    targets += M.overrides(f)
                how = "resolved"
            elif isinstance(ft, tuple) and ft[0] == "func":
                targets = [ft[1]]
                how = "resolved"
            elif isinstance(ft, tuple) and ft[0] == "type" and isinstance(ft[1], str):
                c = M.cls(ft[1], required=False)
                if c is not None:
                    init = M.find_method(c, "__init__")
                    new = M.find_method(c, "__new__")
                    targets = [x for x in (new, init) if x is not None]
                    how = "resolved"
            elif isinstance(ft, tuple) and ft[0] in ("ext", "ext_ret", "callable"):
                how = "external"
            elif isinstance(fx, ast.Name):
                if fx.id in sc.vars:
                    how = "external"  # calling a callable value
                elif fx.id in sc.local_imports or fx.id in fn.mod.imports:
                    how = "external"
                elif fx.id in __builtins__ if isinstance(__builtins__, dict) else hasattr(__builtins__, fx.id):
                    how = "external"
            elif isinstance(fx, ast.Attribute):
                rt = self.type_of(fx.value, sc)
                base = fx.value
                if rt is None and isinstance(base, ast.Name) and (base.id in fn.mod.imports or base.id in sc.local_imports) and M.cls(base.id, required=False) is None:
                    how = "external"  # module function, e.g. struct.unpack, decimal.localcontext
                elif rt is None or (isinstance(rt, tuple) and rt[0] in ("list", "dict", "union", "tuple")):
                    cands = [f for f in M.methods_by_name.get(fx.attr, []) if f.kind != "setter"]
                    if cands and not (isinstance(rt, tuple) and rt[0] in ("list", "dict", "tuple")):
                        targets = cands
                        how = "fallback"
                    else:
                        how = "external"
                else:
                    how = "external"
        if count:
            self.stats["calls"] += 1
            self.stats[how] += 1
        return targets, how

    def implicit_calls(self, e: ast.AST, fn: Func) -> list[tuple[ast.AST, Func]]:
        """Operator / property / builtin-protocol calls implied by an expression node (not ast.Call itself)."""
        M = self.M
        sc = self.scope(fn)
        out: list[tuple[ast.AST, Func]] = []

        def dunder(t: Any, name: str, node: ast.AST) -> None:
            if isinstance(t, str) and t not in BUILTIN_SCALARS:
                c = M.cls(t, required=False)
                if c is not None:
                    f = M.find_method(c, name)
                    if f is not None:
                        out.append((node, f))
                        for o in M.overrides(f):
                            out.append((node, o))

        if isinstance(e, ast.BinOp):
            dn = DUNDER.get(type(e.op))
            if dn:
                lt = self.type_of(e.left, sc)
                dunder(lt, dn, e)
                if type(e.op) in RDUNDER and (lt is None or (isinstance(lt, str) and lt in BUILTIN_SCALARS)):
                    dunder(self.type_of(e.right, sc), RDUNDER[type(e.op)], e)
        elif isinstance(e, ast.UnaryOp) and isinstance(e.op, ast.USub):
            dunder(self.type_of(e.operand, sc), "__neg__", e)
        elif isinstance(e, ast.Compare):
            left = e.left
            for op, right in zip(e.ops, e.comparators):
                dn = DUNDER.get(type(op))
                if dn == "__contains__":
                    dunder(self.type_of(right, sc), dn, e)
                elif dn:
                    dunder(self.type_of(left, sc), dn, e)
                left = right
        elif isinstance(e, ast.Attribute) and isinstance(e.ctx, ast.Load):
            rt = self.type_of(e.value, sc)
            mcls = M.mangling_class(e)
            mattr = mangle(mcls, e.attr) if e.attr.startswith("__") and not e.attr.endswith("__") else e.attr
            f = None
            if isinstance(rt, str) and rt not in BUILTIN_SCALARS:
                c = M.cls(rt, required=False)
                if c is not None:
                    f = M.find_method(c, mattr)
                    if f is not None and f.kind == "property":
                        out.append((e, f))
                        for o in M.overrides(f):
                            if o.kind == "property":
                                out.append((e, o))
            elif isinstance(rt, tuple) and rt[0] == "type" and isinstance(rt[1], str):
                c = M.cls(rt[1], required=False)
                if c is not None and M.find_method(c, mattr) is None:
                    mf = M.find_meta_method(c, mattr)
                    if mf is not None and mf.kind == "property":
                        out.append((e, mf))
        elif isinstance(e, ast.Subscript) and isinstance(e.ctx, ast.Load):
            dunder(self.type_of(e.value, sc), "__getitem__", e)
        elif isinstance(e, ast.Call) and isinstance(e.func, ast.Name) and e.func.id in ("max", "min", "sorted") and e.args:
            t = self.type_of(e.args[0], sc)
            if isinstance(t, tuple) and t[0] == "list":
                t = t[1]
            dunder(t, "__gt__" if e.func.id == "max" else "__lt__", e)
        elif isinstance(e, ast.Call) and isinstance(e.func, ast.Name) and e.func.id in ("hash", "len", "iter", "repr", "str", "int", "bool") and len(e.args) == 1:
            dunder(self.type_of(e.args[0], sc), {"hash": "__hash__", "len": "__len__", "iter": "__iter__", "repr": "__repr__", "str": "__str__", "int": "__int__", "bool": "__bool__"}[e.func.id], e)
        return out


_RES: dict[int, Resolver] = {}


def get_resolver(M: Model) -> Resolver:
    if id(M) not in _RES:
        _RES[id(M)] = Resolver(M)
    return _RES[id(M)]
