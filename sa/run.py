"""CLI: python -m sa.run --property Cxx --tier quick|thorough   (cwd /verif)

exit 0: every claimed clause held on everything analysed (known findings printed as KNOWN-FINDING lines)
exit 1: `VIOLATION property=<id> replay=<path>` per unlisted violation
exit 2: ANALYSIS-ERROR (parse failure, vanished anchor, instance count below the confirmed minimum, internal error)
"""
from __future__ import annotations

import argparse
import importlib
import json
import os
import sys
import time
import traceback

HERE = os.path.dirname(os.path.dirname(os.path.abspath(__file__)))
EVID = os.path.join(HERE, "evidence")
KNOWN = os.path.join(HERE, "known_findings.json")

PROPS = [f"C{i:02d}" for i in range(1, 21)]


def load_rules(prop: str):
    from . import core

    try:
        importlib.import_module(f"sa.rules.{prop.lower()}")
        shared = importlib.import_module("sa.rules.shared")
        shared.register_shared(prop)
    except ModuleNotFoundError as e:
        if e.name == f"sa.rules.{prop.lower()}":
            return []
        raise
    return core.REGISTRY.get(prop, [])


def load_known() -> dict:
    if not os.path.exists(KNOWN):
        return {"known": [], "fixed": []}
    return json.load(open(KNOWN))


def run_property(prop: str, tier: str, repo: str | None = None, write: bool = True, only_rule: str | None = None) -> int:
    from . import core
    from .model import AnalysisError

    t0 = time.time()
    seed = int(os.environ.get("VERIF_SEED", "0") or 0)
    try:
        ctx = core.Ctx(tier, repo)
        rules = load_rules(prop)
        if not rules:
            print(f"ANALYSIS-ERROR property={prop}: no rules registered")
            return 2
        results = []
        errors: list[str] = []
        for fn in rules:
            if only_rule and not any(fn.__name__.lower().startswith(o.strip().lower().replace(".", "_")) for o in only_rule.split(",")):
                continue
            # a rule whose anchor vanished is an analysis error; the remaining rules still run, so that a change which both
            # removes an anchor and violates another rule is reported as the violation it is
            try:
                r = fn(ctx)
                if r.instances < r.min_instances:
                    raise AnalysisError(
                        f"rule {r.rule} ({r.title}) enumerated {r.instances} instances, below the confirmed minimum {r.min_instances}: an anchor vanished or the enumerator no longer matches the code"
                    )
                results.append(r)
            except AnalysisError as e:
                errors.append(str(e))
        if errors and not any(r.findings for r in results):
            for e in errors:
                print(f"ANALYSIS-ERROR property={prop}: {e}")
            return 2
        for e in errors:
            print(f"ANALYSIS-ERROR property={prop}: {e}")
    except AnalysisError as e:
        print(f"ANALYSIS-ERROR property={prop}: {e}")
        return 2
    except Exception:  # noqa: BLE001
        print(f"ANALYSIS-ERROR property={prop}: internal error")
        traceback.print_exc()
        return 2

    known = load_known()
    known_keys = {k["key"]: k for k in known.get("known", []) if k.get("property") == prop}
    violations = []
    known_hit = []
    for r in results:
        for f in r.findings:
            if f.key in known_keys:
                known_hit.append(f)
            else:
                violations.append(f)
    wall = time.time() - t0
    # ---- report
    M = ctx.M
    print(f"[{prop}] tier={tier} repo={M.repo} modules={M.census['modules']} functions={M.census['functions']} classes={M.census['classes']}")
    for r in results:
        status = "ok" if not r.findings else f"{len(r.findings)} finding(s)"
        und = f" undecided={len(r.undecided)}" if r.undecided else ""
        print(f"  {r.rule:8s} {r.title}: instances={r.instances} proved={r.proved}{und} states={r.states} -> {status}")
    for f in known_hit:
        print(f"KNOWN-FINDING: property={prop} {f.key} @ {f.loc}")
    replay_dir = os.path.join(EVID, "replay")
    out_lines = []
    if violations and write:
        os.makedirs(replay_dir, exist_ok=True)
    for k, f in enumerate(violations):
        path = os.path.join(replay_dir, f"{prop}-{k}.json")
        if write:
            json.dump({"property": prop, "rule": f.rule, "where": f.where, "what": f.what, "loc": f.loc, "key": f.key,
                       "detail": f.detail, "tier": tier, "replay_cmd": f"/venv/bin/python -m sa.run --replay {path}"},
                      open(path, "w"), indent=1, default=str)
        print(f"  violation: {f.rule} {f.where}: {f.what}  [{f.loc}]")
        for dk, dv in f.detail.items():
            print(f"      {dk}: {dv}")
        out_lines.append(f"VIOLATION property={prop} replay={path}")
    for line in out_lines:
        print(line)
    if write:
        write_evidence(prop, tier, seed, results, violations, known_hit, ctx, wall)
    return 1 if violations else 0


def write_evidence(prop, tier, seed, results, violations, known_hit, ctx, wall) -> None:
    os.makedirs(EVID, exist_ok=True)
    inst = sum(r.instances for r in results)
    nontriv = sum(r.nontrivial for r in results)
    samples = []
    for r in results:
        for s in r.samples[:3]:
            samples.append({"rule": r.rule, "case": s})
    if not samples:
        samples = [{"rule": r.rule, "case": r.title} for r in results[:3]]
    undecided = {r.rule: r.undecided for r in results if r.undecided}
    cov = {
        "explanation": (
            "Static analysis of /repo's current working tree (ast-based program model; nothing imported or run). "
            "Each rule enumerates its instances (functions, call sites, table rows, abstract states) and decides them; "
            "see per_rule. The check decides the named structural clauses (necessary conditions), not the value-level behaviour."
        ),
        "evaluations": max(inst, 1),
        "distinct_nontrivial": nontriv,
        "rule": "one evaluation = one rule instance (construction site, call site, table row, path or abstract ordering) decided by its rule; "
                "non-trivial = decision needed path/abstract-state/call-graph reasoning rather than a constant lookup; instances are distinct by (rule, construct)",
        "samples": samples,
        "obligations": sum(r.proved for r in results) + sum(len(r.findings) for r in results) + sum(len(r.undecided) for r in results),
        "discharged": sum(r.proved for r in results),
        "states": sum(r.states for r in results),
        "exhaustive": False,
        "per_rule": [
            {"rule": r.rule, "title": r.title, "instances": r.instances, "min_instances": r.min_instances, "proved": r.proved,
             "findings": [f.key for f in r.findings], "undecided": len(r.undecided), "states": r.states, "notes": r.notes}
            for r in results
        ],
        "not_decided": undecided,
        "known_findings_reported": [f.key for f in known_hit],
        "analysed": dict(ctx.M.census, **{"call_resolution": dict(ctx.R.stats)}),
    }
    ev = {
        "property_id": prop,
        "tier": tier,
        "seed": seed,
        "level": "other",
        "coverage": cov,
        "assumptions": [
            "Python semantics of the analysed constructs as modelled by the engines (ast of /repo working tree, CPython 3.12 grammar)",
            "integers are totally ordered; annotations in /repo are truthful (mypy --strict policy of the project)",
            "contracts assumed on reads are established at every construction site enumerated by the program model (assume/guarantee)",
        ],
        "wall_s": round(wall, 3),
        "violations": len(violations),
    }
    json.dump(ev, open(os.path.join(EVID, f"{prop}.json"), "w"), indent=1, default=str)


def main() -> int:
    ap = argparse.ArgumentParser()
    ap.add_argument("--property")
    ap.add_argument("--tier", default=os.environ.get("VERIF_TIER", "quick"))
    ap.add_argument("--repo", default=None)
    ap.add_argument("--self-check", action="store_true")
    ap.add_argument("--all", action="store_true")
    ap.add_argument("--replay")
    ap.add_argument("--rule")
    ap.add_argument("--no-write", action="store_true")
    a = ap.parse_args()
    sys.path.insert(0, HERE)
    if a.self_check:
        from .model import get_model

        M = get_model(a.repo)
        print("self-check ok:", M.census)
        return 0
    if a.replay:
        d = json.load(open(a.replay))
        return run_property(d["property"], d.get("tier", "quick"), a.repo, write=False, only_rule=d["rule"])
    if a.all:
        rc = 0
        for p in PROPS:
            if load_rules(p):
                rc = max(rc, run_property(p, a.tier, a.repo, write=not a.no_write))
        return rc
    if not a.property:
        ap.error("--property required")
    rc = run_property(a.property, a.tier, a.repo, write=not a.no_write, only_rule=a.rule)
    if a.tier == "thorough" and rc == 0 and not a.rule:
        try:
            from . import selftest
        except ImportError:
            return rc
        rc = selftest.run_for_property(a.property, a.repo)
    return rc


if __name__ == "__main__":
    try:
        code = main()
    except SystemExit:
        raise
    except Exception:  # noqa: BLE001
        print("ANALYSIS-ERROR: internal error")
        traceback.print_exc()
        code = 2
    sys.stdout.flush()
    sys.exit(code)
