"""Rule plumbing: findings, rule results, context, vacuity guards."""
from __future__ import annotations

import ast
from dataclasses import dataclass, field
from typing import Any, Callable

from .model import AnalysisError, Func, Model, get_model, unparse
from .resolve import Resolver, get_resolver


@dataclass
class Finding:
    rule: str
    where: str  # function qualname / construct (stable, no line numbers)
    what: str  # normalised description of the violated instance (stable)
    loc: str = ""  # file:line (informational)
    detail: dict[str, Any] = field(default_factory=dict)

    @property
    def key(self) -> str:
        return f"{self.rule}|{self.where}|{self.what}"


@dataclass
class RuleResult:
    rule: str
    title: str
    instances: int = 0  # rule instances enumerated on this run
    min_instances: int = 1  # hand-confirmed minimum on the pinned tree; fewer => ANALYSIS-ERROR
    nontrivial: int = 0  # instances whose decision needed more than a constant lookup
    proved: int = 0
    undecided: list[str] = field(default_factory=list)
    findings: list[Finding] = field(default_factory=list)
    samples: list[Any] = field(default_factory=list)
    states: int = 0  # abstract states / paths explored
    notes: list[str] = field(default_factory=list)

    def inst(self, n: int = 1, nontrivial: bool = True) -> None:
        self.instances += n
        if nontrivial:
            self.nontrivial += n

    def ok(self, sample: Any = None) -> None:
        self.proved += 1
        if sample is not None and len(self.samples) < 6:
            self.samples.append(sample)

    def fail(self, where: str, what: str, loc: str = "", **detail: Any) -> None:
        self.findings.append(Finding(self.rule, where, what, loc, detail))


class Ctx:
    def __init__(self, tier: str = "quick", repo: str | None = None) -> None:
        self.tier = tier
        self.M: Model = get_model(repo)
        self.R: Resolver = get_resolver(self.M)
        self.cache: dict[str, Any] = {}
        if not getattr(self.M, "_tables_folded", False):
            from .tablefold import fold_static_tables

            self.M._tables = fold_static_tables(self.M, STATIC_TABLE_CLASSES)  # type: ignore[attr-defined]
            self.M._tables_folded = True  # type: ignore[attr-defined]

    def need_func(self, qual: str) -> Func:
        f = self.M.func(qual, required=True)
        assert f is not None
        return f

    def loc(self, fn: Func | None, node: ast.AST | None = None) -> str:
        if fn is None:
            return ""
        ln = getattr(node, "lineno", None) or fn.node.lineno
        return f"{fn.mod.rel}:{ln}"


# classes whose bodies fill constant tables from literals (static initialisers); folded by the restricted table folder
STATIC_TABLE_CLASSES = ["_UmAlQuraYearMonthDayCalculator", "_GJYearMonthDayCalculator", "_IslamicYearMonthDayCalculator", "_PersianYearMonthDayCalculator"]

RuleFn = Callable[[Ctx], RuleResult]

REGISTRY: dict[str, list[RuleFn]] = {}


def rule(prop: str) -> Callable[[RuleFn], RuleFn]:
    def deco(fn: RuleFn) -> RuleFn:
        REGISTRY.setdefault(prop, []).append(fn)
        return fn

    return deco


def norm(e: ast.AST | str | None) -> str:
    """Normalised source text of a construct (whitespace/quote independent)."""
    if e is None:
        return ""
    if isinstance(e, str):
        try:
            return ast.unparse(ast.parse(e))
        except SyntaxError:
            return e
    return unparse(e)


__all__ = ["AnalysisError", "Ctx", "Finding", "RuleResult", "rule", "REGISTRY", "norm"]


def anchor_files(prop: str) -> set[str]:
    """Anchor files of a property, read from the given properties.jsonl (scope for generic rules)."""
    import json
    import os

    here = os.path.dirname(os.path.dirname(os.path.abspath(__file__)))
    for line in open(os.path.join(here, "properties.jsonl")):
        p = json.loads(line)
        if p["id"] == prop:
            return set(p["anchors"]["files"])
    raise AnalysisError(f"property {prop} not in properties.jsonl")


# files outside a property's anchors whose code is part of its mechanism (reviewed): property -> files
EXTRA_SCOPE = {
    "C02": ("pyoda_time/_local_date.py", "pyoda_time/calendars/_year_month_day_calculator.py"),
    "C06": ("pyoda_time/text/_offset_pattern_parser.py", "pyoda_time/time_zones/_fixed_date_time_zone.py"),
    "C09": ("pyoda_time/calendars/_islamic_year_month_day_calculator.py", "pyoda_time/calendars/_persian_year_month_day_calculator.py", "pyoda_time/calendars/_um_al_qura_year_month_day_calculator.py", "pyoda_time/calendars/_badi_year_month_day_calculator.py", "pyoda_time/calendars/_coptic_year_month_day_calculator.py", "pyoda_time/calendars/_g_j_year_month_day_calculator.py", "pyoda_time/calendars/_gregorian_year_month_day_calculator.py", "pyoda_time/calendars/_julian_year_month_day_calculator.py"),
    "C12": ("pyoda_time/time_zones/cldr/_map_zone.py", "pyoda_time/time_zones/_fixed_date_time_zone.py", "pyoda_time/time_zones/_zone_interval.py"),
}


def anchor_scope(ctx: "Ctx", prop: str) -> set[str]:
    """Anchor files of a property, the files defining a base class of any class in them (the inherited code runs as part of the anchored
    classes: a calculator's conversions live in its abstract bases) and the files defining the classes they import by name."""
    key = f"anchor_scope.{prop}"
    if key not in ctx.cache:
        files = set(anchor_files(prop)) | set(EXTRA_SCOPE.get(prop, ()))
        M = ctx.M
        for lst in M.classes.values():
            for c in lst:
                if c.mod.rel in files:
                    for b in M.mro(c):
                        if b.mod.rel.startswith("pyoda_time/"):
                            files.add(b.mod.rel)
        # classes the anchored modules import by name (module level or inside functions): the anchored code computes with them
        import ast as _ast

        for m in M.mods.values():
            if m.rel in set(anchor_files(prop)):
                for n in _ast.walk(m.tree):
                    if isinstance(n, _ast.ImportFrom):
                        for a in n.names:
                            for c in M.classes.get(a.name, []):
                                if c.mod.rel.startswith("pyoda_time/") and c.outer is None:
                                    files.add(c.mod.rel)
        ctx.cache[key] = files
    return ctx.cache[key]

