"""Abstract execution of the pattern-building phase (part of E6).

Every row of a parser's character-handler table is evaluated with the range prover: the row expression (a function, a
lambda, or a call of a handler factory with constant arguments) yields a handler closure; the handler is run on an abstract
pattern cursor and builder; the parse-action closures it registers are then run on an abstract value cursor and a bucket of
the parser's bucket class.  Observed: every store into a bucket field with the abstract value stored.  The join over all
rows gives, per bucket field, the range the parse actions can leave there - the field invariant that the bucket's
calculate_value may rely on (decided in R08.4) and that the row's declared [min, max] must agree with (R07.2).
"""
from __future__ import annotations

import ast
from dataclasses import dataclass, field
from typing import Any

from .absint import AV, NN, ConstV, Interp, Iv, NoneV, Obj, State, Top, join, num
from .core import Ctx
from .kit import own_nodes
from .model import AnalysisError, Cls, Func, mangle, unparse
from .oblig import get_contracts
from .textsum import apply_text_summaries


@dataclass
class Write:
    bucket: str
    field: str
    value: AV
    row: str
    via: str  # function containing the store


@dataclass
class ParserTable:
    parser: Cls
    attr: str
    table: ast.Dict
    bucket: Cls | None
    rows: dict[str, ast.expr] = field(default_factory=dict)


def holder(c: Cls, expr: ast.expr) -> Func:
    return Func("<classbody>", c.qual + ".<classbody>", c.mod, ast.Lambda(args=ast.arguments(posonlyargs=[], args=[], kwonlyargs=[], kw_defaults=[], defaults=[]), body=expr, lineno=getattr(expr, "lineno", 1), col_offset=0), c, None, set(), "function")


def parser_tables(ctx: Ctx) -> list[ParserTable]:
    """Handler tables = class-level dict literals passed as the second argument of _parse_custom_pattern."""
    M = ctx.M
    out: list[ParserTable] = []
    seen: set[tuple[int, str]] = set()
    for f in M.funcs.values():
        if not f.mod.rel.startswith("pyoda_time/text/") or isinstance(f.node, ast.Lambda) or f.cls is None:
            continue
        for n in own_nodes(f.node):
            if isinstance(n, ast.Call) and isinstance(n.func, ast.Attribute) and n.func.attr == "_parse_custom_pattern" and len(n.args) >= 2:
                t = n.args[1]
                if not (isinstance(t, ast.Attribute) and isinstance(t.value, ast.Name) and t.value.id in ("self", "cls")):
                    raise AnalysisError(f"{f.qual}: handler table argument {unparse(t)} is not a class attribute")
                attr = mangle(f.cls.name, t.attr)
                hit = M.find_class_attr(f.cls, attr)
                if hit is None or not isinstance(hit[1], ast.Dict):
                    raise AnalysisError(f"{f.qual}: handler table {attr} is not a dict literal")
                owner, d = hit
                if (id(owner), attr) in seen:
                    continue
                seen.add((id(owner), attr))
                # bucket class: _SteppedPatternBuilder(format_info, <provider>) in the same function
                bucket = None
                for m in own_nodes(f.node):
                    if isinstance(m, ast.Call) and unparse(m.func).split("[")[0].endswith("_SteppedPatternBuilder") and len(m.args) >= 2:
                        bucket = _bucket_class(ctx, m.args[1], f)
                pt = ParserTable(owner, attr, d, bucket)
                for k, v in zip(d.keys, d.values):
                    if isinstance(k, ast.Constant) and isinstance(k.value, str):
                        pt.rows[k.value] = v
                out.append(pt)
    return out


def _bucket_class(ctx: Ctx, prov: ast.expr, f: Func) -> Cls | None:
    M = ctx.M
    if isinstance(prov, ast.Name):
        owner: Func | None = f
        while owner is not None:
            if prov.id in owner.nested:
                g = owner.nested[prov.id]
                for n in own_nodes(g.node):
                    if isinstance(n, ast.Return) and n.value is not None:
                        lam = ast.Lambda(args=ast.arguments(posonlyargs=[], args=[], kwonlyargs=[], kw_defaults=[], defaults=[]), body=n.value)
                        M.func_of_node[id(lam)] = g
                        return _bucket_class(ctx, lam, g)
            defs = ctx.R.scope(owner).defs.get(prov.id)
            if defs:
                return _bucket_class(ctx, defs[0], owner)
            owner = owner.parent
    t = ctx.R.type_of(prov, ctx.R.scope(f))
    if isinstance(t, tuple) and t[0] == "type" and isinstance(t[1], str):
        return M.cls(t[1], required=False)
    if isinstance(prov, ast.Lambda):
        lf = M.func_of_node.get(id(prov), f)
        rt = ctx.R.type_of(prov.body, ctx.R.scope(lf))
        if isinstance(rt, str) and rt != "_ParseBucket":
            return M.cls(rt, required=False)
        if isinstance(prov.body, ast.Call) and isinstance(prov.body.func, ast.Attribute):
            ct = ctx.R.type_of(prov.body.func.value, ctx.R.scope(lf))
            if isinstance(ct, tuple) and ct[0] == "type" and isinstance(ct[1], str):
                return M.cls(ct[1], required=False)
            nm = unparse(prov.body.func.value).split(".")[-1]
            if M.cls(nm, required=False) is not None:
                return M.cls(nm, required=False)
        if isinstance(prov.body, ast.Call):
            tg, _ = ctx.R.callees(prov.body, lf, count=False)
            for t0 in tg:
                if t0.cls is not None and M.is_subclass(t0.cls, "_ParseBucket"):
                    return t0.cls
    if isinstance(t, tuple) and t[0] in ("func", "bound"):
        rt = ctx.R.ret_type(t[1])
        if isinstance(rt, str):
            return M.cls(rt, required=False)
    return None


class BuildRun:
    """Abstract build of one parser table; collects bucket field writes of every registered parse action."""

    def __init__(self, ctx: Ctx, pt: ParserTable) -> None:
        self.ctx = ctx
        self.pt = pt
        self.writes: list[Write] = []
        self.helper_calls: list[tuple[str, str, dict[str, AV], str]] = []  # (row, helper qualname, bound args, chain)
        self.format_actions: dict[str, int] = {}
        self.actions: dict[str, int] = {}
        self.problems: list[str] = []
        self.steps = 0

    def _interp(self) -> Interp:
        I = Interp(self.ctx.M, self.ctx.R, get_contracts(self.ctx), budget=512, depth=9, max_nodes=6000)
        I.follow_callables = True
        I.hooks_all_depths = True
        apply_text_summaries(self.ctx, I)
        return I

    def run(self) -> None:
        for ch, expr in self.pt.rows.items():
            self.run_row(ch, expr)

    def value_type(self) -> str | None:
        """T of the parser (`_IPatternParser[T]`)."""
        for b in self.pt.parser.base_exprs:
            if isinstance(b, ast.Subscript) and unparse(b.value).endswith("_IPatternParser"):
                return unparse(b.slice).split(".")[-1]
        return None

    def run_row(self, ch: str, expr: ast.expr) -> None:
        M = self.ctx.M
        pt = self.pt
        I = self._interp()
        h = holder(pt.parser, expr)
        I._inline_stack = [id(h)]
        I._inline_names = [h.qual]
        queued: list[NN] = []
        fqueued: list[NN] = []

        def on_call(c: ast.Call, f: Func, bound: dict[str, AV], st: State, fn: Func) -> None:
            if f.name == "_add_parse_action" and f.cls is not None and f.cls.name == "_SteppedPatternBuilder":
                v = bound.get("parse_action")
                if isinstance(v, NN) and v.func is not None:
                    queued.append(v)
                else:
                    self.problems.append(f"row {ch!r}: parse action registered at {fn.qual} is not a resolvable closure ({v!r})")
            if f.name == "_add_format_action" and f.cls is not None and f.cls.name == "_SteppedPatternBuilder":
                v = bound.get("format_action")
                if isinstance(v, NN) and v.func is not None:
                    fqueued.append(v)

        I.on_call = on_call
        try:
            hv = I.ev(expr, State(), h, 0)
        except RecursionError:
            self.problems.append(f"row {ch!r}: recursion while evaluating the row expression")
            return
        if not (isinstance(hv, NN) and hv.func is not None):
            self.problems.append(f"row {ch!r}: handler expression {unparse(expr)[:60]} did not evaluate to a function ({hv!r})")
            return
        pat = Obj("_PatternCursor")
        bld = Obj("_SteppedPatternBuilder")
        outs = I.inline(hv.func, [pat, bld], {}, State(), h, 0, hv.recv, expr, [], {}, env=hv.env)
        if outs is None:
            self.problems.append(f"row {ch!r}: handler {hv.func.qual} could not be evaluated ({I.opaque_log[-1:]})")
            return
        self.actions[ch] = len(queued)
        self.format_actions[ch] = len(fqueued)
        vt = self.value_type()
        if vt is not None:
            for fa in fqueued:
                I3 = self._interp()
                I3._inline_stack = [id(h)]
                I3._inline_names = [h.qual]

                def on_helper(c: ast.Call, f: Func, bound: dict[str, AV], st: State, fn: Func, _ch: str = ch, _I: Interp = I3) -> None:
                    if f.cls is not None and f.cls.name == "_FormatHelper":
                        self.helper_calls.append((_ch, f.qual, dict(bound), " > ".join(_I._inline_names[-3:])))

                I3.on_call = on_helper
                try:
                    I3.inline(fa.func, [Obj(vt), Obj("StringBuilder")], {}, State(), h, 0, fa.recv, expr, [], {}, env=fa.env)
                except RecursionError:
                    pass
                self.steps += I3.steps
        if pt.bucket is None:
            return
        # run the registered parse actions on an abstract cursor / bucket
        bucket_names = {k.name for k in [pt.bucket]}
        for pa in queued:
            I2 = self._interp()
            I2._inline_stack = [id(h)]
            I2._inline_names = [h.qual]

            def on_write(base: AV, attr: str, v: AV, st: State, fn: Func, node: ast.AST, _ch: str = ch) -> None:
                if isinstance(base, Obj):
                    bc = M.cls(base.tname, required=False)
                    if bc is not None and M.is_subclass(bc, "_ParseBucket"):
                        self.writes.append(Write(bc.name, attr, v, _ch, fn.qual))

            I2.on_field_write = on_write
            cur = Obj("_ValueCursor")
            bk = Obj(pt.bucket.name, {"$exact": Iv(1, 1)})
            try:
                r = I2.inline(pa.func, [cur, bk], {}, State(), h, 0, None, expr, [], {}, env=pa.env)
            except RecursionError:
                r = None
            if r is None:
                self.problems.append(f"row {ch!r}: parse action {pa.func.qual} could not be evaluated ({I2.opaque_log[-1:]})")
            self.steps += I2.steps
        self.steps += I.steps


def field_ranges(ctx: Ctx) -> tuple[dict[tuple[str, str], AV], list[Write], list[str], dict[str, dict[str, int]]]:
    """Join of every value the parse actions store into each bucket field, over all parser tables."""
    if "bucket_ranges" in ctx.cache:
        return ctx.cache["bucket_ranges"]
    ranges: dict[tuple[str, str], AV] = {}
    writes: list[Write] = []
    problems: list[str] = []
    actions: dict[str, dict[str, int]] = {}
    tables = parser_tables(ctx)
    if len(tables) < 6:
        raise AnalysisError(f"only {len(tables)} handler tables found (6 confirmed)")
    for pt in tables:
        br = BuildRun(ctx, pt)
        br.run()
        actions[pt.parser.name] = br.actions
        problems += [f"{pt.parser.name}: {p}" for p in br.problems]
        for w in br.writes:
            k = (w.bucket, w.field)
            ranges[k] = w.value if k not in ranges else join(ranges[k], w.value)
            writes.append(w)
    ctx.cache["bucket_ranges"] = (ranges, writes, problems, actions)
    return ctx.cache["bucket_ranges"]
