"""Lock rules (E5): re-entrancy, lockset, double-checked publication."""
from __future__ import annotations

import ast
from typing import Any

from .core import Ctx, RuleResult
from .kit import LockRegion, attr_key, inside, lock_regions, own_nodes, stores_in
from .model import Cls, Func, mangle, unparse


def lock_kind(ctx: Ctx, cls: Cls, lock_key: str) -> str:
    """'Lock' | 'RLock' | '?' for a lock stored at self.<field> / cls.<field> of cls (or its metaclass)."""
    fieldname = lock_key.split(".")[-1]
    for k in ctx.M.mro(cls):
        v = k.assigns.get(fieldname)
        if v is not None:
            return "RLock" if "RLock" in unparse(v) else ("Lock" if "Lock" in unparse(v) else "?")
        for f in k.all_defs:
            for n in own_nodes(f.node):
                if isinstance(n, (ast.Assign, ast.AnnAssign)):
                    tg = n.targets[0] if isinstance(n, ast.Assign) else n.target
                    if isinstance(tg, ast.Attribute) and mangle(k.name, tg.attr) == fieldname and n.value is not None:
                        u = unparse(n.value)
                        return "RLock" if "RLock" in u else ("Lock" if "Lock(" in u else "?")
    return "?"


def self_callees(ctx: Ctx, fn: Func, node: ast.AST) -> list[tuple[ast.AST, Func]]:
    """Methods of the same object invoked by a node: self.m(...), cls.m(...) and property reads self.p."""
    out: list[tuple[ast.AST, Func]] = []
    if fn.cls is None:
        return out
    sn = fn.self_name
    for n in [node, *[x for x in ast.walk(node) if x is not node]]:
        if isinstance(n, (ast.FunctionDef, ast.Lambda)):
            continue
        if isinstance(n, ast.Attribute) and isinstance(n.value, ast.Name) and n.value.id == sn:
            f = ctx.M.find_method(fn.cls, mangle(fn.cls.name, n.attr))
            if f is not None:
                par = getattr(n, "_parent", None)
                is_call = isinstance(par, ast.Call) and par.func is n
                if f.kind == "property" and isinstance(n.ctx, ast.Load):
                    out.append((n, f))
                elif f.kind != "property" and is_call:
                    out.append((par, f))
                if isinstance(n.ctx, ast.Store) and f.kind == "property":
                    st = f.cls.setters.get(f.name) if f.cls else None
                    if st is not None:
                        out.append((n, st))
    return out


def reach_same_object(ctx: Ctx, start: Func, depth: int = 8) -> dict[int, tuple[Func, list[str]]]:
    """Methods reachable from `start` through calls on the same `self` (transitively)."""
    seen: dict[int, tuple[Func, list[str]]] = {id(start): (start, [start.qual])}
    work = [start]
    while work:
        f = work.pop()
        path = seen[id(f)][1]
        if len(path) > depth or isinstance(f.node, ast.Lambda):
            continue
        for _, g in self_callees(ctx, f, f.node):
            if id(g) not in seen:
                seen[id(g)] = (g, path + [g.qual])
                work.append(g)
    return seen


def check_reentrancy(ctx: Ctx, cls: Cls, rr: RuleResult) -> None:
    """Inside a region on a non-reentrant lock of self, no call may reach (on the same object) a method that enters a region on the same lock."""
    for f in cls.all_defs:
        for reg in lock_regions(f):
            if not reg.lock.startswith((f.self_name or "self") + "."):
                continue
            kind = lock_kind(ctx, cls, reg.lock)
            rr.inst()
            if kind == "RLock":
                rr.ok({"fn": f.qual, "lock": reg.lock, "kind": kind})
                continue
            bad = None
            for stmt in reg.node.body:
                for call_node, g in self_callees(ctx, f, stmt):
                    for _, (h, path) in reach_same_object(ctx, g).items():
                        if any(r.lock == reg.lock for r in lock_regions(h)):
                            bad = (call_node, g, h, path)
                            break
                    if bad:
                        break
                if bad:
                    break
            rr.states += 1
            if bad:
                call_node, g, h, path = bad
                rr.fail(f.qual, f"calls {g.qual} while holding non-reentrant {reg.lock}; {h.qual} acquires the same lock (self-deadlock)",
                        ctx.loc(f, call_node), path=" -> ".join([f.qual] + path), lock_kind=kind)
            else:
                rr.ok({"fn": f.qual, "lock": reg.lock, "kind": kind, "calls_on_self_in_region": "none re-acquire"})


def field_accesses(fn: Func, fields: set[str]) -> list[tuple[ast.Attribute, str]]:
    out = []
    cn = fn.cls.name if fn.cls else None
    sn = fn.self_name
    for n in own_nodes(fn.node):
        if isinstance(n, ast.Attribute) and isinstance(n.value, ast.Name) and n.value.id == sn:
            m = mangle(cn, n.attr)
            if m in fields:
                out.append((n, m))
    return out


def held_on_entry(ctx: Ctx, cls: Cls, lock_field: str) -> set[int]:
    """Private methods that are only ever called (on the same object) while the lock is held: every call site lies inside a
    region on the lock, or inside another such method.  Least fixpoint from the lexical regions."""
    held: set[int] = set()
    sites: dict[int, list[tuple[Func, ast.AST]]] = {}
    for f in cls.all_defs:
        if isinstance(f.node, ast.Lambda):
            continue
        for call_node, g in self_callees(ctx, f, f.node):
            sites.setdefault(id(g), []).append((f, call_node))
    changed = True
    while changed:
        changed = False
        for g in cls.all_defs:
            if id(g) in held or not g.name.startswith("_") or g.name.startswith("__") and g.name.endswith("__"):
                continue
            ss = sites.get(id(g), [])
            if not ss:
                continue
            ok = True
            for f, node in ss:
                regs = [r for r in lock_regions(f) if r.lock.split(".")[-1] == lock_field]
                if not (any(inside(node, r.node) for r in regs) or id(f) in held):
                    ok = False
                    break
            if ok:
                held.add(id(g))
                changed = True
    return held


def check_lockset(ctx: Ctx, cls: Cls, lock_field: str, guarded: set[str], rr: RuleResult, ctor_names: tuple[str, ...] = ("__init__", "_ctor", "__new__")) -> None:
    """Every access to a guarded field outside constructors happens inside a `with self.<lock_field>` region, or in a
    private helper that is only called with the lock held."""
    held = held_on_entry(ctx, cls, lock_field)
    for f in cls.all_defs:
        if f.name in ctor_names:
            continue
        regs = [r for r in lock_regions(f) if r.lock.split(".")[-1] == lock_field]
        for node, fld in field_accesses(f, guarded):
            rr.inst()
            if any(inside(node, r.node) for r in regs):
                rr.ok()
            elif id(f) in held:
                rr.ok({"fn": f.qual, "field": fld, "lock": "held by every caller"})
            else:
                rr.fail(f.qual, f"accesses guarded field {fld} outside `with {lock_field}`", ctx.loc(f, node))


def check_lock_discipline(ctx: Ctx, cls: Cls, rr: RuleResult) -> None:
    """Locks are taken with `with` (exception-safe); a bare acquire() must sit directly before a try whose finally releases."""
    for f in cls.all_defs:
        if isinstance(f.node, ast.Lambda):
            continue
        for n in own_nodes(f.node):
            if isinstance(n, ast.Call) and isinstance(n.func, ast.Attribute) and n.func.attr == "acquire" and "lock" in unparse(n.func.value).lower():
                rr.inst()
                lock = unparse(n.func.value)
                stmt: Any = n
                while stmt is not None and not isinstance(stmt, ast.stmt):
                    stmt = getattr(stmt, "_parent", None)
                parent = getattr(stmt, "_parent", None)
                ok = False
                body = getattr(parent, "body", None)
                if isinstance(body, list) and stmt in body:
                    i = body.index(stmt)
                    if i + 1 < len(body) and isinstance(body[i + 1], ast.Try):
                        fin = body[i + 1].finalbody
                        ok = any(isinstance(x, ast.Call) and isinstance(x.func, ast.Attribute) and x.func.attr == "release" and unparse(x.func.value) == lock for s in fin for x in ast.walk(s))
                if ok:
                    rr.ok({"fn": f.qual, "lock": lock, "idiom": "acquire + try/finally release"})
                else:
                    rr.fail(f.qual, f"{lock}.acquire() is not followed by try/finally release: an exception in the critical section leaves the lock held and every later operation blocks", ctx.loc(f, n))
