"""Memoisation shape analyses (generic, repo-wide): lazily filled slots and keyed memo tables.

lazy slot        if S is None: <store>; return S        the slot that is tested is the slot that is filled (and read back)
memo table       hit = D.get(K) / D[K] / K in D ... D[K'] = V     K == K' and every data parameter the stored value depends on
                                                         is mentioned in K (otherwise a hit answers for a different argument)
Both are decided per function on the syntax tree; nothing is executed.
"""
from __future__ import annotations

import ast
import re
from dataclasses import dataclass
from typing import Iterator

from .kit import inline_locals, own_nodes
from .model import Func, Model, unparse


def _is_none_test(t: ast.expr) -> ast.expr | None:
    """`S is None` / `(x := S) is None` -> S"""
    if isinstance(t, ast.BoolOp) and isinstance(t.op, ast.Or):
        # `S is None or <stale test on S>`: a slot that is refilled when a validation fails is still lazily filled
        for v in t.values:
            r = _is_none_test(v)
            if r is not None:
                return r
        return None
    if isinstance(t, ast.Compare) and len(t.ops) == 1 and isinstance(t.ops[0], ast.Is) and isinstance(t.comparators[0], ast.Constant) and t.comparators[0].value is None:
        left = t.left
        if isinstance(left, ast.NamedExpr):
            left = left.value
        return left
    return None


def _base(e: ast.expr) -> str | None:
    while isinstance(e, ast.Attribute):
        e = e.value
    return e.id if isinstance(e, ast.Name) else None


def _targets(s: ast.stmt) -> list[ast.expr]:
    if isinstance(s, ast.Assign):
        out: list[ast.expr] = []
        for t in s.targets:
            out.extend(t.elts if isinstance(t, ast.Tuple) else [t])
        return out
    if isinstance(s, (ast.AnnAssign, ast.AugAssign)):
        return [s.target]
    return []


@dataclass
class LazySlot:
    fn: Func
    slot: str
    node: ast.If
    stores: list[str]
    problem: str | None


def lazy_slots(M: Model, files: set[str] | None = None) -> Iterator[LazySlot]:
    """Every `if <obj>.<slot> is None:` whose body stores to an attribute of the same object, in a function that hands a slot of that object back."""
    for f in list(M.func_of_node.values()):
        if files is not None and f.mod.rel not in files:
            continue
        if isinstance(f.node, ast.Lambda):
            continue
        for i in own_nodes(f.node):
            if not isinstance(i, ast.If):
                continue
            s = _is_none_test(i.test)
            alias = None
            if isinstance(s, ast.Name):
                # `x = obj.slot` ... `if x is None:`  (the slot read into a local first)
                par = getattr(i, "_parent", None)
                for fld in ("body", "orelse", "finalbody"):
                    blk = getattr(par, fld, None)
                    if isinstance(blk, list) and any(i is st for st in blk):
                        for st in reversed(blk[: next(k for k, st in enumerate(blk) if st is i)]):
                            if isinstance(st, (ast.Assign, ast.AnnAssign)) and getattr(st, "value", None) is not None and any(isinstance(t, ast.Name) and t.id == s.id for t in _targets(st)):
                                if isinstance(st.value, ast.Attribute):
                                    alias, s = s.id, st.value
                                break
            if s is None or not isinstance(s, ast.Attribute):
                continue
            base = _base(s)
            if base is None:
                continue
            slot = unparse(s)
            stores = []
            for st in (x for b in i.body for x in ast.walk(b)):
                if isinstance(st, ast.stmt):
                    for t in _targets(st):
                        if isinstance(t, ast.Attribute) and _base(t) == base and isinstance(t.value, ast.Name):
                            stores.append(unparse(t))
            if not stores or not isinstance(s.value, ast.Name):
                continue  # a guard, not a lazy fill
            problem = None
            wrong = [t for t in stores if t != slot]
            if slot not in stores:
                problem = f"`{slot}` is tested for None but the value built for it is stored in {sorted(set(wrong))} (the tested slot stays empty and another slot is overwritten)"
            yield LazySlot(f, slot, i, stores, problem)


# ------------------------------------------------------------------------------------------------------ keyed memo tables


@dataclass
class MemoTable:
    fn: Func
    table: str
    read_keys: list[str]
    store_key: str
    value: str
    deps: set[str]
    problem: str | None
    node: ast.AST
    how: str = "explicit table"


def _value_deps(f: Func, v: ast.expr) -> set[str]:
    """Names the stored value depends on as data: names in v, closed over local assignments and attribute stores on them.
    A name that only occurs as the callee of a call is not data (the factory of a get_or_add is a function of the key by contract)."""
    def data_names(e: ast.AST) -> set[str]:
        out: set[str] = set()
        callee_only: set[int] = set()
        for n in ast.walk(e):
            if isinstance(n, ast.Call) and isinstance(n.func, ast.Name):
                callee_only.add(id(n.func))
        for n in ast.walk(e):
            if isinstance(n, ast.Name) and id(n) not in callee_only:
                out.add(n.id)
        return out

    deps = data_names(v)
    changed = True
    while changed:
        changed = False
        for s in own_nodes(f.node):
            if not isinstance(s, (ast.Assign, ast.AnnAssign, ast.AugAssign)) or getattr(s, "value", None) is None:
                continue
            for t in _targets(s):
                root = t
                while isinstance(root, (ast.Attribute, ast.Subscript)):
                    root = root.value
                if isinstance(root, ast.Name) and root.id in deps and not (isinstance(t, ast.Subscript) and isinstance(root, ast.Name) and False):
                    new = data_names(s.value) - deps
                    if new:
                        deps |= new
                        changed = True
            # walrus inside the value
        for n in own_nodes(f.node):
            if isinstance(n, ast.NamedExpr) and n.target.id in deps:
                new = data_names(n.value) - deps
                if new:
                    deps |= new
                    changed = True
    return deps


def _direct_names(k: ast.expr) -> set[str]:
    """parameters that are the key itself, an element of a key tuple, or the root of an attribute chain in it"""
    out: set[str] = set()
    elts = k.elts if isinstance(k, ast.Tuple) else [k]
    for e in elts:
        while isinstance(e, ast.Attribute):
            e = e.value
        if isinstance(e, ast.Name):
            out.add(e.id)
    return out


def _derived_from(f: Func, names: set[str], backwards: bool = False) -> set[str]:
    """forwards: locals computed from `names`;  backwards: names that the locals in `names` are computed from"""
    out = set(names)
    changed = True
    while changed:
        changed = False
        for n in own_nodes(f.node):
            tg: list[str] = []
            val = None
            if isinstance(n, (ast.Assign, ast.AnnAssign)) and getattr(n, "value", None) is not None:
                tg = [t.id for t in _targets(n) if isinstance(t, ast.Name)]
                val = n.value
            elif isinstance(n, ast.NamedExpr):
                tg, val = [n.target.id], n.value
            if val is None or not tg:
                continue
            used = {x.id for x in ast.walk(val) if isinstance(x, ast.Name)}
            if not backwards and used & out and not set(tg) <= out:
                out |= set(tg)
                changed = True
            if backwards and set(tg) & out and not used <= out:
                out |= used
                changed = True
    return out


def _validated(f: Func, table: str, params: set[str]) -> bool:
    """Is a hit checked against the argument?  Some test mentions both the entry read from the table and the parameter (or a value
    derived from it) - not counting the table read itself and bare `is None` tests."""
    derived = _derived_from(f, params)
    cached: set[str] = set()
    reads: list[ast.AST] = []
    for n in own_nodes(f.node):
        is_read = (isinstance(n, ast.Call) and isinstance(n.func, ast.Attribute) and n.func.attr == "get" and unparse(n.func.value) == table) or \
                  (isinstance(n, ast.Subscript) and isinstance(n.ctx, ast.Load) and unparse(n.value) == table)
        if is_read:
            reads.append(n)
            p = getattr(n, "_parent", None)
            if isinstance(p, ast.NamedExpr):
                cached.add(p.target.id)
            elif isinstance(p, (ast.Assign, ast.AnnAssign)):
                cached |= {t.id for t in _targets(p) if isinstance(t, ast.Name)}
    read_nodes = {id(x) for r in reads for x in ast.walk(r) if isinstance(x, ast.expr)}
    for n in own_nodes(f.node):
        t = getattr(n, "test", None) if isinstance(n, (ast.If, ast.IfExp, ast.While, ast.Assert)) else None
        if t is None:
            continue
        names = {x.id for x in ast.walk(t) if isinstance(x, ast.Name) and id(x) not in read_nodes}
        touches_entry = bool(names & cached) or any(id(x) in read_nodes for x in ast.walk(t) if isinstance(x, ast.expr))
        if touches_entry and names & (derived - cached):
            return True
    return False


# registries whose key determines every other constructor argument at the construction sites (function -> reason)
REGISTRIES_KEYED_BY_DESIGN = {
    "CalendarSystem.__ctor": "keyed by the calendar ordinal; every ordinal has exactly one construction site, which fixes id, name and calculators (R01.2, R02.8)",
}


def memo_tables(M: Model, files: set[str] | None = None) -> Iterator[MemoTable]:
    for f in list(M.func_of_node.values()):
        if files is not None and f.mod.rel not in files:
            continue
        if isinstance(f.node, ast.Lambda):
            continue
        params = {a.arg for a in f.value_params}
        if f.decorators & {"functools.cache", "cache", "functools.lru_cache", "lru_cache"} or any(d.startswith(("functools.lru_cache", "lru_cache")) for d in f.decorators):
            # keyed on every argument by construction - provided argument *equality* means "same value": aware datetimes (and
            # times) compare equal when they denote the same instant at different offsets, floats equal ints, etc.
            coarse = [p.arg for p in f.value_params if p.annotation is not None and re.search(r"\b(datetime|time|float|Decimal|timedelta)\b", unparse(p.annotation))
                      and not re.search(r"\btimedelta\b", unparse(p.annotation))]
            prob = None
            if coarse:
                prob = (f"memoised with functools on parameter(s) {coarse} whose equality is coarser than identity of value (aware datetimes that denote the same "
                        f"instant at different offsets are equal and hash alike): the result cached for one is returned for the other")
            yield MemoTable(f, "functools.cache", [], "all parameters", "", params, prob, f.node, how="functools.cache (keyed on every argument by construction)")
            continue
        stores: dict[str, list[ast.Assign]] = {}
        for n in own_nodes(f.node):
            if isinstance(n, ast.Assign):
                for tg in n.targets:
                    if isinstance(tg, ast.Subscript) and isinstance(tg.value, ast.Attribute):
                        stores.setdefault(unparse(tg.value), []).append(n)
        # `table.setdefault(key, value)` is the atomic spelling of `table[key] = value` (the registered object is what comes back)
        for n in own_nodes(f.node):
            if isinstance(n, ast.Call) and isinstance(n.func, ast.Attribute) and n.func.attr == "setdefault" and isinstance(n.func.value, ast.Attribute) and len(n.args) == 2:
                fake = ast.Assign(targets=[ast.Subscript(value=n.func.value, slice=n.args[0], ctx=ast.Store())], value=n.args[1])
                ast.copy_location(fake, n)
                ast.fix_missing_locations(fake)
                fake._parent = getattr(n, "_parent", None)  # type: ignore[attr-defined]
                stores.setdefault(unparse(n.func.value), []).append(fake)
        if not stores:
            continue
        for table, sts in stores.items():
            reads: list[ast.expr] = []
            tests: list[ast.expr] = []
            ret_names = {x.id for r in own_nodes(f.node) if isinstance(r, ast.Return) and r.value is not None for x in ast.walk(r.value) if isinstance(x, ast.Name)}

            def handed_back(n: ast.AST) -> bool:
                """the value read from the table reaches a return (directly, or through a local / walrus)"""
                p = getattr(n, "_parent", None)
                while p is not None and not isinstance(p, ast.stmt):
                    if isinstance(p, ast.NamedExpr) and p.target.id in ret_names:
                        return True
                    p = getattr(p, "_parent", None)
                if isinstance(p, ast.Return):
                    return True
                if isinstance(p, (ast.Assign, ast.AnnAssign)):
                    return any(isinstance(t, ast.Name) and t.id in ret_names for t in _targets(p))
                return False

            for n in own_nodes(f.node):
                if isinstance(n, ast.Call) and isinstance(n.func, ast.Attribute) and n.func.attr == "get" and unparse(n.func.value) == table and n.args and handed_back(n):
                    reads.append(n.args[0])
                elif isinstance(n, ast.Compare) and len(n.ops) == 1 and isinstance(n.ops[0], (ast.In, ast.NotIn)) and unparse(n.comparators[0]) == table:
                    par = getattr(n, "_parent", None)
                    if isinstance(par, ast.If) and any(isinstance(x, ast.Return) or (isinstance(x, ast.Assign) and x in sts) for b in par.body for x in ast.walk(b)):
                        tests.append(n.left)
                elif isinstance(n, ast.Subscript) and isinstance(n.ctx, ast.Load) and unparse(n.value) == table and handed_back(n):
                    reads.append(n.slice)
            if not reads:
                continue
            reads.extend(tests)
            # the value read must be handed back (a memo), not merely consulted
            for st in sts:
                tgt = next(t for t in st.targets if isinstance(t, ast.Subscript) and unparse(t.value) == table)
                k_store = inline_locals(f.node, tgt.slice)
                ks = unparse(k_store)
                rks = [unparse(inline_locals(f.node, r)) for r in reads]
                deps = _value_deps(f, st.value) & params
                direct = _direct_names(k_store)
                mentioned = {n.id for n in ast.walk(k_store) if isinstance(n, ast.Name)} | _derived_from(f, {n.id for n in ast.walk(k_store) if isinstance(n, ast.Name)}, backwards=True)
                problem = None
                if any(rk != ks for rk in rks):
                    problem = f"table `{table}` is read with key `{[rk for rk in rks if rk != ks][0]}` but filled with key `{ks}`"
                else:
                    missing = sorted(deps - mentioned)
                    if missing:
                        problem = f"table `{table}` is keyed on `{ks}` but the stored value also depends on parameter(s) {missing}: a hit returns the object built for another argument"
                    else:
                        lossy = sorted(p for p in deps if p not in direct)
                        if lossy and not _validated(f, table, set(lossy)):
                            problem = (f"table `{table}` is keyed on `{ks}`, which is only derived from parameter(s) {lossy} (several arguments share a key), and a hit is "
                                       f"returned without checking the entry against the argument: the object built for another argument is handed back")
                if problem is not None and f.qual in REGISTRIES_KEYED_BY_DESIGN and "also depends on parameter" in problem:
                    problem = None  # reviewed: the key determines the other arguments at every construction site
                yield MemoTable(f, table, rks, ks, unparse(st.value), deps, problem, st)


# ------------------------------------------------------------------------------------------------------ what a lazy fill reads


def settable_properties(M: Model) -> set[str]:
    """names of properties that have a setter somewhere in the package (mutable configuration)"""
    out: set[str] = set()
    for mod in M.mods.values():
        for n in ast.walk(mod.tree):
            if isinstance(n, ast.FunctionDef):
                for d in n.decorator_list:
                    if isinstance(d, ast.Attribute) and d.attr == "setter":
                        out.add(n.name)
    return out


def lazy_fills(M: Model) -> Iterator[tuple[Func, ast.If, str, list[ast.expr]]]:
    """(function, if-node, slot text, values stored) for every lazily filled slot: the attribute form recognised by `lazy_slots`
    and the `x = getattr(o, NAME, None); if x is None: ...; setattr(o, NAME, x)` form."""
    for ls in lazy_slots(M):
        vals = [st.value for b in ls.node.body for st in ast.walk(b) if isinstance(st, (ast.Assign, ast.AnnAssign)) and getattr(st, "value", None) is not None]
        # locals the fill reads: what they were computed from counts as well (the slot's own alias excepted)
        used = {x.id for v in vals for x in ast.walk(v) if isinstance(x, ast.Name)}
        for st in own_nodes(ls.fn.node):
            if isinstance(st, (ast.Assign, ast.AnnAssign)) and getattr(st, "value", None) is not None and getattr(st, "lineno", 0) < ls.node.lineno:
                for t in _targets(st):
                    if isinstance(t, ast.Name) and t.id in used and unparse(st.value) != ls.slot:
                        vals.append(st.value)
        yield ls.fn, ls.node, ls.slot, vals
    for f in list(M.func_of_node.values()):
        if isinstance(f.node, ast.Lambda):
            continue
        for i in own_nodes(f.node):
            if not isinstance(i, ast.If):
                continue
            s = _is_none_test(i.test)
            if not isinstance(s, ast.Name):
                continue
            src = None
            for st in own_nodes(f.node):
                if isinstance(st, (ast.Assign, ast.AnnAssign)) and getattr(st, "value", None) is not None and any(isinstance(t, ast.Name) and t.id == s.id for t in _targets(st)):
                    v = st.value
                    if isinstance(v, ast.Call) and isinstance(v.func, ast.Name) and v.func.id == "getattr" and len(v.args) == 3 and isinstance(v.args[2], ast.Constant) and v.args[2].value is None:
                        src = v
            if src is None:
                continue
            sets = [c for b in i.body for c in ast.walk(b) if isinstance(c, ast.Call) and isinstance(c.func, ast.Name) and c.func.id == "setattr" and len(c.args) == 3
                    and unparse(c.args[0]) == unparse(src.args[0]) and unparse(c.args[1]) == unparse(src.args[1])]
            if not sets:
                continue
            vals = [st.value for b in i.body for st in ast.walk(b) if isinstance(st, (ast.Assign, ast.AnnAssign)) and getattr(st, "value", None) is not None]
            yield f, i, f"getattr({unparse(src.args[0])}, {unparse(src.args[1])})", vals
