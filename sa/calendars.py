"""Shared calendar facts obtained by abstract evaluation: the concrete calculator instances and their year ranges."""
from __future__ import annotations

import ast
from dataclasses import dataclass

from .absint import Iv, Obj
from .core import Ctx
from .kit import own_nodes
from .model import AnalysisError, mangle, unparse
from .oblig import interp


@dataclass
class CalcInstance:
    label: str  # e.g. _IslamicYearMonthDayCalculator(BASE15, CIVIL)
    cls: str
    obj: Obj
    min_year: int
    max_year: int


def calculator_instances(ctx: Ctx) -> list[CalcInstance]:
    """Every calculator construction in CalendarSystem (registry arms, Hebrew and Islamic factories), evaluated abstractly."""
    if "calc_instances" in ctx.cache:
        return ctx.cache["calc_instances"]
    M = ctx.M
    out: list[CalcInstance] = []
    cs = M.cls("CalendarSystem")
    sites: list[tuple] = []
    for f in cs.all_defs:
        if isinstance(f.node, ast.Lambda):
            continue
        for n in own_nodes(f.node):
            if isinstance(n, ast.Call):
                name = unparse(n.func)
                c = M.cls(name.split(".")[0], required=False) if "." not in name else M.cls(name.split(".")[0], required=False)
                target = name.split(".")[0] if "." not in name else name
                k = M.cls(name, required=False) if "." not in name else None
                if "." in name:
                    # nested factory such as _PersianYearMonthDayCalculator.Simple()
                    base = M.cls(name.split(".")[0], required=False)
                    if base is not None and M.is_subclass(base, "_YearMonthDayCalculator"):
                        sites.append((f, n, name))
                elif k is not None and M.is_subclass(k, "_YearMonthDayCalculator"):
                    sites.append((f, n, name))
    seen = set()
    for f, n, name in sites:
        I = interp(ctx)
        I.max_depth = 6
        variants: list[dict] = [{}]
        # constructor arguments that are enum parameters of the factory: enumerate their members
        params = {p.arg: p for p in f.value_params}
        enum_args = []
        for a in n.args:
            if isinstance(a, ast.Name) and a.id in params:
                t = M.ann_type(params[a.id].annotation, f.mod)
                ec = M.cls(t, required=False) if isinstance(t, str) else None
                if ec is not None and M.is_subclass(ec, "IntEnum"):
                    vals = sorted(v for v in (M.fold(x, ec, ec.mod) for x in ec.assigns.values()) if isinstance(v, int) and not isinstance(v, bool))
                    enum_args.append((a.id, ec.name, vals))
        if enum_args:
            import itertools

            variants = [dict(zip([e[0] for e in enum_args], combo)) for combo in itertools.product(*[e[2] for e in enum_args])]
        for var in variants:
            from .absint import State

            st = State({k: Iv(v, v) for k, v in var.items()})
            try:
                res = I.call(n, st, f, 1)
            except Exception:  # noqa: BLE001
                continue
            for v, _ in res:
                if isinstance(v, Obj):
                    c = M.cls(v.tname, required=False)
                    if c is None or not M.is_subclass(c, "_YearMonthDayCalculator"):
                        continue
                    mn = v.fields.get(mangle("_YearMonthDayCalculator", "__min_year"))
                    mx = v.fields.get(mangle("_YearMonthDayCalculator", "__max_year"))
                    if isinstance(mn, Iv) and isinstance(mx, Iv) and mn.const and mx.const:
                        label = f"{v.tname}({', '.join(f'{k}={val}' for k, val in var.items())})"
                        if label in seen:
                            continue
                        seen.add(label)
                        out.append(CalcInstance(label, v.tname, v, int(mn.lo), int(mx.lo)))
    if len(out) < 9:
        raise AnalysisError(f"only {len(out)} concrete calendar calculators could be evaluated (>= 9 confirmed): {[o.label for o in out]}")
    ctx.cache["calc_instances"] = out
    return out
