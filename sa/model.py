"""E0 - program model of /repo/pyoda_time built from the ast of the current working tree.

Symbols (modules, classes incl. nested and metaclasses, functions incl. nested closures), name mangling,
constant folding, annotation-driven type resolution, call resolution, and a census for the evidence.
"""
from __future__ import annotations

import ast
import os
from dataclasses import dataclass, field
from typing import Any, Iterable, Iterator

REPO = os.environ.get("PYODA_REPO", "/repo")
PKG = "pyoda_time"


class AnalysisError(Exception):
    """Raised when an anchor vanished / an instance count fell below the confirmed minimum (exit 2)."""


# --------------------------------------------------------------------------------------------- data


@dataclass
class Mod:
    rel: str  # path relative to repo root
    name: str  # dotted module name
    tree: ast.Module
    src: str
    classes: dict[str, "Cls"] = field(default_factory=dict)
    funcs: dict[str, "Func"] = field(default_factory=dict)
    assigns: dict[str, ast.expr] = field(default_factory=dict)
    imports: dict[str, tuple[str, str | None]] = field(default_factory=dict)

    @property
    def short(self) -> str:
        return self.name.rsplit(".", 1)[-1]


@dataclass
class Cls:
    name: str
    qual: str
    mod: Mod
    node: ast.ClassDef
    outer: "Cls | None" = None
    outer_func: "Func | None" = None
    base_exprs: list[ast.expr] = field(default_factory=list)
    base_names: list[str] = field(default_factory=list)
    metaclass: str | None = None
    methods: dict[str, "Func"] = field(default_factory=dict)
    setters: dict[str, "Func"] = field(default_factory=dict)
    all_defs: list["Func"] = field(default_factory=list)  # incl. overload stubs excluded
    assigns: dict[str, ast.expr] = field(default_factory=dict)  # mangled name -> value
    annots: dict[str, ast.expr] = field(default_factory=dict)  # mangled name -> annotation
    nested: dict[str, "Cls"] = field(default_factory=dict)
    decorators: set[str] = field(default_factory=set)
    table_lambdas: dict[str, list["Func"]] = field(default_factory=dict)  # class-level attr -> lambdas in its initialiser

    def __hash__(self) -> int:
        return id(self)

    def __repr__(self) -> str:
        return f"<Cls {self.qual}>"


@dataclass
class Func:
    name: str
    qual: str
    mod: Mod
    node: ast.FunctionDef | ast.Lambda
    cls: Cls | None = None
    parent: "Func | None" = None
    decorators: set[str] = field(default_factory=set)
    kind: str = "function"  # function | method | classmethod | staticmethod | property | setter
    nested: dict[str, "Func"] = field(default_factory=dict)
    nested_all: dict[str, list["Func"]] = field(default_factory=dict)  # every def of a name (branches may define it several times)
    lambdas: list["Func"] = field(default_factory=list)

    def __hash__(self) -> int:
        return id(self)

    def __repr__(self) -> str:
        return f"<Func {self.qual}>"

    @property
    def params(self) -> list[ast.arg]:
        a = self.node.args
        return [*a.posonlyargs, *a.args, *a.kwonlyargs]

    @property
    def value_params(self) -> list[ast.arg]:
        """Parameters without the implicit self/cls."""
        ps = self.params
        if self.cls is not None and self.kind in ("method", "classmethod", "property", "setter") and ps:
            return ps[1:]
        return ps

    @property
    def self_name(self) -> str | None:
        ps = self.params
        if self.cls is not None and self.kind in ("method", "classmethod", "property", "setter") and ps:
            return ps[0].arg
        return None

    @property
    def body(self) -> list[ast.stmt]:
        if isinstance(self.node, ast.Lambda):
            return [ast.Return(value=self.node.body, lineno=self.node.lineno, col_offset=0)]
        return strip_doc(self.node.body)

    @property
    def loc(self) -> str:
        return f"{self.mod.rel}:{self.node.lineno}"

    def default_of(self, pname: str) -> ast.expr | None:
        a = self.node.args
        pos = [*a.posonlyargs, *a.args]
        for p, d in zip(reversed(pos), reversed(a.defaults)):
            if p.arg == pname:
                return d
        for p, d in zip(a.kwonlyargs, a.kw_defaults):
            if p.arg == pname:
                return d
        return None


def strip_doc(body: list[ast.stmt]) -> list[ast.stmt]:
    if body and isinstance(body[0], ast.Expr) and isinstance(body[0].value, ast.Constant) and isinstance(body[0].value.value, str):
        return body[1:]
    return body


def mangle(cls_name: str | None, attr: str) -> str:
    if cls_name and attr.startswith("__") and not attr.endswith("__"):
        return "_" + cls_name.lstrip("_") + attr
    return attr


def deco_names(node: ast.AST) -> set[str]:
    out = set()
    for d in getattr(node, "decorator_list", []):
        if isinstance(d, ast.Call):
            d = d.func
        try:
            out.add(ast.unparse(d))
        except Exception:  # pragma: no cover
            pass
    return out


def unparse(n: ast.AST | None) -> str:
    if n is None:
        return ""
    try:
        return ast.unparse(n)
    except Exception:  # pragma: no cover
        return "<?>"


# --------------------------------------------------------------------------------------------- model


class Model:
    def __init__(self, repo: str | None = None) -> None:
        self.repo = repo or REPO
        self.mods: dict[str, Mod] = {}
        self.mod_by_name: dict[str, Mod] = {}
        self.classes: dict[str, list[Cls]] = {}
        self.funcs: dict[str, Func] = {}
        self.module_funcs: dict[str, list[Func]] = {}
        self.methods_by_name: dict[str, list[Func]] = {}
        self.subclasses: dict[str, list[Cls]] = {}
        self.func_of_node: dict[int, Func] = {}
        self.cls_of_node: dict[int, Cls] = {}
        self._fold_memo: dict[tuple[int, str], Any] = {}
        self._fold_stack: set[tuple[int, str]] = set()
        self.census: dict[str, int] = {}
        self._load()

    # ------------------------------------------------------------------ loading
    def _load(self) -> None:
        root = os.path.join(self.repo, PKG)
        if not os.path.isdir(root):
            raise AnalysisError(f"package directory {root} not found")
        n_lines = 0
        for dp, dn, fn in sorted(os.walk(root)):
            dn.sort()
            for f in sorted(fn):
                if not f.endswith(".py"):
                    continue
                p = os.path.join(dp, f)
                rel = os.path.relpath(p, self.repo)
                src = open(p, encoding="utf-8").read()
                try:
                    tree = ast.parse(src, filename=rel)
                except SyntaxError as e:
                    raise AnalysisError(f"cannot parse {rel}: {e}") from e
                n_lines += src.count("\n")
                name = rel[:-3].replace(os.sep, ".")
                if name.endswith(".__init__"):
                    name = name[: -len(".__init__")]
                m = Mod(rel, name, tree, src)
                self.mods[rel] = m
                self.mod_by_name[name] = m
        for m in self.mods.values():
            self._index_module(m)
        for cl in self.all_classes():
            for b in cl.base_names:
                self.subclasses.setdefault(b, []).append(cl)
        self.census = {
            "modules": len(self.mods),
            "lines": n_lines,
            "classes": sum(len(v) for v in self.classes.values()),
            "functions": len(self.funcs),
        }

    def _index_module(self, m: Mod) -> None:
        for node in ast.walk(m.tree):
            for ch in ast.iter_child_nodes(node):
                ch._parent = node  # type: ignore[attr-defined]
        self._index_body(m, m.tree.body, None, None, m.short)

    def _collect_imports(self, stmts: Iterable[ast.stmt], into: dict[str, tuple[str, str | None]]) -> None:
        for s in stmts:
            if isinstance(s, ast.Import):
                for a in s.names:
                    into[(a.asname or a.name).split(".")[0]] = (a.name, None)
            elif isinstance(s, ast.ImportFrom):
                for a in s.names:
                    into[a.asname or a.name] = (("." * s.level) + (s.module or ""), a.name)
            elif isinstance(s, ast.If):
                self._collect_imports(s.body, into)
                self._collect_imports(s.orelse, into)
            elif isinstance(s, ast.Try):
                self._collect_imports(s.body, into)

    def _index_body(self, m: Mod, body: list[ast.stmt], cls: Cls | None, fn: Func | None, prefix: str) -> None:
        if cls is None and fn is None:
            self._collect_imports(body, m.imports)
        for s in body:
            if isinstance(s, ast.ClassDef):
                self._index_class(m, s, cls, fn, prefix)
            elif isinstance(s, (ast.FunctionDef, ast.AsyncFunctionDef)):
                self._index_func(m, s, cls, fn, prefix)
            elif isinstance(s, (ast.Assign, ast.AnnAssign)):
                tgts = s.targets if isinstance(s, ast.Assign) else [s.target]
                for t in tgts:
                    if isinstance(t, ast.Name):
                        nm = mangle(cls.name if cls else None, t.id)
                        if cls is not None and fn is None:
                            if isinstance(s, ast.AnnAssign):
                                cls.annots[nm] = s.annotation
                            if s.value is not None:
                                cls.assigns[nm] = s.value
                                self._index_class_lambdas(m, cls, nm, s.value)
                        elif cls is None and fn is None and s.value is not None:
                            m.assigns[t.id] = s.value
            elif isinstance(s, ast.If) and cls is None and fn is None:
                self._index_body_nested_if(m, s, prefix)

    def _index_class_lambdas(self, m: Mod, cls: Cls, attr: str, value: ast.expr) -> None:
        """Lambdas in class-level initialisers (handler tables) become functions `Cls.attr.<lambda#k>`."""
        k = 0
        for sub in ast.walk(value):
            if isinstance(sub, ast.Lambda) and id(sub) not in self.func_of_node:
                k += 1
                lq = f"{cls.qual}.{attr}.<lambda#{k}>"
                lf = Func(f"<lambda#{k}>", lq, m, sub, cls, None, set(), "function")
                cls.table_lambdas.setdefault(attr, []).append(lf)
                self.funcs[lq] = lf
                self.func_of_node[id(sub)] = lf

    def _index_body_nested_if(self, m: Mod, s: ast.If, prefix: str) -> None:
        for blk in (s.body, s.orelse):
            for t in blk:
                if isinstance(t, ast.ClassDef):
                    self._index_class(m, t, None, None, prefix)
                elif isinstance(t, ast.FunctionDef):
                    self._index_func(m, t, None, None, prefix)

    def _index_class(self, m: Mod, node: ast.ClassDef, outer: Cls | None, fn: Func | None, prefix: str) -> None:
        qual = f"{outer.qual}.{node.name}" if outer else (f"{fn.qual}.<locals>.{node.name}" if fn else node.name)
        c = Cls(node.name, qual, m, node, outer, fn)
        c.decorators = deco_names(node)
        c.base_exprs = list(node.bases)
        for b in node.bases:
            bb = b
            if isinstance(bb, ast.Subscript):
                bb = bb.value
            if isinstance(bb, ast.Name):
                c.base_names.append(bb.id)
            elif isinstance(bb, ast.Attribute):
                c.base_names.append(bb.attr)
        for kw in node.keywords:
            if kw.arg == "metaclass":
                c.metaclass = unparse(kw.value).split(".")[-1]
        self.classes.setdefault(node.name, []).append(c)
        self.cls_of_node[id(node)] = c
        if outer:
            outer.nested[node.name] = c
        elif fn is None:
            m.classes[node.name] = c
        self._index_body(m, node.body, c, None, qual)

    def _index_func(self, m: Mod, node: ast.FunctionDef, cls: Cls | None, parent: Func | None, prefix: str) -> None:
        decos = deco_names(node)
        if "overload" in decos or "typing.overload" in decos:
            return
        if parent is not None:
            qual = f"{parent.qual}.<locals>.{node.name}"
            dup = len(parent.nested_all.get(node.name, []))
            if dup:
                qual = f"{qual}#{dup + 1}"  # same-named nested defs in different branches
        elif cls is not None:
            qual = f"{cls.qual}.{node.name}"
        else:
            qual = f"{m.short}.{node.name}"
        f = Func(node.name, qual, m, node, cls if parent is None else parent.cls, parent, decos)
        if cls is not None and parent is None:
            if "staticmethod" in decos:
                f.kind = "staticmethod"
            elif "classmethod" in decos:
                f.kind = "classmethod"
            elif "property" in decos or any(d.endswith("cached_property") for d in decos):
                f.kind = "property"
            elif any(d.endswith(".setter") for d in decos):
                f.kind = "setter"
            else:
                f.kind = "method"
            if f.kind == "setter":
                cls.setters[node.name] = f
                qual = qual + ".setter"
                f.qual = qual
            else:
                cls.methods[node.name] = f
                # mangled alias for private methods
                mn = mangle(cls.name, node.name)
                if mn != node.name:
                    cls.methods[mn] = f
            cls.all_defs.append(f)
            self.methods_by_name.setdefault(node.name, []).append(f)
        elif parent is not None:
            parent.nested.setdefault(node.name, f)
            parent.nested_all.setdefault(node.name, []).append(f)
            f.kind = "function"
        else:
            m.funcs[node.name] = f
            self.module_funcs.setdefault(node.name, []).append(f)
        self.funcs[qual] = f
        self.func_of_node[id(node)] = f
        # nested defs / classes / lambdas inside the function body
        k = 0
        for sub in self._walk_shallow(node):
            if isinstance(sub, (ast.FunctionDef, ast.AsyncFunctionDef)):
                self._index_func(m, sub, cls, f, prefix)
            elif isinstance(sub, ast.ClassDef):
                self._index_class(m, sub, None, f, prefix)
            elif isinstance(sub, ast.Lambda):
                k += 1
                lq = f"{f.qual}.<lambda#{k}>"
                lf = Func(f"<lambda#{k}>", lq, m, sub, f.cls, f, set(), "function")
                f.lambdas.append(lf)
                self.funcs[lq] = lf
                self.func_of_node[id(sub)] = lf

    @staticmethod
    def _walk_shallow(fn: ast.AST) -> Iterator[ast.AST]:
        """Walk the body of fn, yielding nested defs/classes/lambdas but not descending into defs/classes."""
        stack = list(ast.iter_child_nodes(fn))
        while stack:
            n = stack.pop()
            if isinstance(n, (ast.FunctionDef, ast.AsyncFunctionDef, ast.ClassDef)):
                yield n
                continue
            if isinstance(n, ast.Lambda):
                yield n
            stack.extend(ast.iter_child_nodes(n))

    # ------------------------------------------------------------------ lookup helpers
    def all_classes(self) -> Iterator[Cls]:
        for lst in self.classes.values():
            yield from lst

    def cls(self, name: str, required: bool = True) -> Cls | None:
        """Class by simple or qualified name."""
        if "." in name:
            for c in self.all_classes():
                if c.qual == name:
                    return c
        lst = self.classes.get(name.split(".")[-1], [])
        if len(lst) == 1:
            return lst[0]
        if lst:
            # prefer non-compat, top-level
            top = [c for c in lst if c.outer is None and c.outer_func is None and "_compatibility" not in c.mod.rel]
            if len(top) == 1:
                return top[0]
            return lst[0]
        if required:
            raise AnalysisError(f"anchor class {name} not found in {self.repo}/{PKG}")
        return None

    def func(self, qual: str, required: bool = True) -> Func | None:
        f = self.funcs.get(qual)
        if f is None and "." in qual:
            cn, _, mn = qual.rpartition(".")
            c = self.cls(cn, required=False)
            if c is not None:
                f = self.find_method(c, mn)
        if f is None and required:
            raise AnalysisError(f"anchor function {qual} not found in {self.repo}/{PKG}")
        return f

    def mro(self, c: Cls) -> list[Cls]:
        out: list[Cls] = []
        seen: set[int] = set()

        def rec(k: Cls) -> None:
            if id(k) in seen:
                return
            seen.add(id(k))
            out.append(k)
            for b in k.base_names:
                bc = self.cls(b, required=False)
                if bc is not None:
                    rec(bc)

        rec(c)
        return out

    def find_method(self, c: Cls, name: str) -> Func | None:
        for k in self.mro(c):
            if name in k.methods:
                return k.methods[name]
            mn = mangle(k.name, name)
            if mn in k.methods:
                return k.methods[mn]
        return None

    def find_meta_method(self, c: Cls, name: str) -> Func | None:
        for k in self.mro(c):
            if k.metaclass:
                mc = self.cls(k.metaclass, required=False)
                if mc is not None:
                    f = self.find_method(mc, name)
                    if f is not None:
                        return f
        return None

    def class_having_metaclass(self, meta: Cls) -> Cls | None:
        for c in self.all_classes():
            if c.metaclass == meta.name:
                return c
        return None

    def find_class_attr(self, c: Cls, name: str) -> tuple[Cls, ast.expr] | None:
        for k in self.mro(c):
            for nm in (name, mangle(k.name, name)):
                if nm in k.assigns:
                    return k, k.assigns[nm]
        return None

    def find_annot(self, c: Cls, name: str) -> ast.expr | None:
        for k in self.mro(c):
            for nm in (name, mangle(k.name, name)):
                if nm in k.annots:
                    return k.annots[nm]
        return None

    def is_subclass(self, c: Cls | str, base: str) -> bool:
        if isinstance(c, str):
            cc = self.cls(c, required=False)
            if cc is None:
                return c == base
            c = cc
        return any(k.name == base for k in self.mro(c)) or base in self._ext_bases(c)

    def _ext_bases(self, c: Cls) -> set[str]:
        out: set[str] = set()
        for k in self.mro(c):
            out.update(k.base_names)
        return out

    def overrides(self, f: Func) -> list[Func]:
        """All overriding definitions of method f in (transitive) subclasses."""
        if f.cls is None:
            return []
        out: list[Func] = []
        seen: set[int] = set()
        stack = list(self.subclasses.get(f.cls.name, []))
        while stack:
            c = stack.pop()
            if id(c) in seen:
                continue
            seen.add(id(c))
            if f.name in c.methods and c.methods[f.name] is not f:
                out.append(c.methods[f.name])
            stack.extend(self.subclasses.get(c.name, []))
        return out

    def enclosing(self, node: ast.AST) -> tuple[Func | None, Cls | None]:
        """Innermost function and class containing an ast node."""
        fn: Func | None = None
        cl: Cls | None = None
        n: Any = node
        while n is not None:
            n = getattr(n, "_parent", None)
            if n is None:
                break
            if fn is None and id(n) in self.func_of_node:
                fn = self.func_of_node[id(n)]
            if cl is None and id(n) in self.cls_of_node:
                cl = self.cls_of_node[id(n)]
                break
        if fn is not None and cl is None:
            cl = fn.cls
        return fn, cl

    def mangling_class(self, node: ast.AST) -> str | None:
        n: Any = node
        while n is not None:
            n = getattr(n, "_parent", None)
            if isinstance(n, ast.ClassDef):
                return n.name
        return None

    # ------------------------------------------------------------------ constant folding
    def fold(self, e: ast.expr | None, cls: Cls | None = None, mod: Mod | None = None, env: dict[str, Any] | None = None) -> Any:
        """Fold expression to a Python constant; returns UNKNOWN when not foldable."""
        try:
            return self._fold(e, cls, mod, env or {})
        except _NoFold:
            return UNKNOWN
        except (ArithmeticError, ValueError, TypeError, IndexError, KeyError, OverflowError):
            return UNKNOWN

    def fold_class_const(self, cname: str, attr: str) -> Any:
        c = self.cls(cname, required=False)
        if c is None:
            return UNKNOWN
        try:
            return self._fold_attr_of_class(c, attr)
        except _NoFold:
            return UNKNOWN
        except (ArithmeticError, ValueError, TypeError, IndexError, KeyError, OverflowError):
            return UNKNOWN

    def _fold_attr_of_class(self, c: Cls, attr: str) -> Any:
        hit = self.find_class_attr(c, attr)
        if hit is None:
            # enum-like?  (IntEnum members are class assigns, handled above)
            raise _NoFold
        k, val = hit
        key = (id(k), attr)
        if key in self._fold_memo:
            return self._fold_memo[key]
        if key in self._fold_stack:
            raise _NoFold
        self._fold_stack.add(key)
        try:
            v = self._fold(val, k, k.mod, {})
        finally:
            self._fold_stack.discard(key)
        self._fold_memo[key] = v
        return v

    def _fold(self, e: ast.expr | None, cls: Cls | None, mod: Mod | None, env: dict[str, Any]) -> Any:
        if e is None:
            raise _NoFold
        if isinstance(e, ast.Constant):
            return e.value
        if isinstance(e, ast.Name):
            if e.id in env:
                v = env[e.id]
                if v is UNKNOWN:
                    raise _NoFold
                return v
            if cls is not None:
                for k in [cls] + ([cls.outer] if cls.outer else []):
                    for nm in (e.id, mangle(k.name, e.id)):
                        if nm in k.assigns:
                            return self._fold_attr_of_class(k, nm)
            if mod is not None and e.id in mod.assigns:
                key = (id(mod), e.id)
                if key in self._fold_memo:
                    return self._fold_memo[key]
                if key in self._fold_stack:
                    raise _NoFold
                self._fold_stack.add(key)
                try:
                    v = self._fold(mod.assigns[e.id], None, mod, {})
                finally:
                    self._fold_stack.discard(key)
                self._fold_memo[key] = v
                return v
            if e.id in ("True", "False", "None"):
                return {"True": True, "False": False, "None": None}[e.id]
            raise _NoFold
        if isinstance(e, ast.Attribute):
            txt = unparse(e)
            if txt in STDLIB_CONSTS:
                return STDLIB_CONSTS[txt]
            base = e.value
            if isinstance(base, ast.Name):
                if base.id in ("cls", "self") and cls is not None and base.id not in env:
                    return self._fold_attr_of_class(cls, mangle(cls.name, e.attr))
                kc = self.cls(base.id, required=False)
                if kc is not None and base.id not in env:
                    mcls = self.mangling_class(e) or (cls.name if cls else None)
                    return self._fold_attr_of_class(kc, mangle(mcls, e.attr) if e.attr.startswith("__") else e.attr)
            if isinstance(base, ast.Attribute):
                # e.g. module.Class.CONST
                kc = self.cls(base.attr, required=False)
                if kc is not None:
                    return self._fold_attr_of_class(kc, e.attr)
            # enum member .value
            if e.attr == "value":
                return self._fold(base, cls, mod, env)
            raise _NoFold
        if isinstance(e, ast.UnaryOp):
            v = self._fold(e.operand, cls, mod, env)
            if isinstance(e.op, ast.USub):
                return -v
            if isinstance(e.op, ast.UAdd):
                return +v
            if isinstance(e.op, ast.Invert):
                return ~v
            if isinstance(e.op, ast.Not):
                return not v
        if isinstance(e, ast.BinOp):
            a = self._fold(e.left, cls, mod, env)
            b = self._fold(e.right, cls, mod, env)
            op = e.op
            if isinstance(op, ast.Add):
                return a + b
            if isinstance(op, ast.Sub):
                return a - b
            if isinstance(op, ast.Mult):
                if isinstance(a, (list, str, bytes, tuple)) and isinstance(b, int) and b > 100000:
                    raise _NoFold
                return a * b
            if isinstance(op, ast.FloorDiv):
                return a // b
            if isinstance(op, ast.Mod):
                if isinstance(a, (str, bytes)):
                    raise _NoFold
                return a % b
            if isinstance(op, ast.Div):
                return a / b
            if isinstance(op, ast.LShift):
                if b > 4096:
                    raise _NoFold
                return a << b
            if isinstance(op, ast.RShift):
                return a >> b
            if isinstance(op, ast.BitAnd):
                return a & b
            if isinstance(op, ast.BitOr):
                return a | b
            if isinstance(op, ast.BitXor):
                return a ^ b
            if isinstance(op, ast.Pow):
                if isinstance(b, int) and abs(b) > 4096:
                    raise _NoFold
                return a**b
            raise _NoFold
        if isinstance(e, ast.Tuple):
            return tuple(self._fold(x, cls, mod, env) for x in e.elts)
        if isinstance(e, ast.List):
            return [self._fold(x, cls, mod, env) for x in e.elts]
        if isinstance(e, ast.Subscript):
            v = self._fold(e.value, cls, mod, env)
            if isinstance(e.slice, ast.Slice):
                lo = self._fold(e.slice.lower, cls, mod, env) if e.slice.lower else None
                hi = self._fold(e.slice.upper, cls, mod, env) if e.slice.upper else None
                return v[lo:hi]
            i = self._fold(e.slice, cls, mod, env)
            return v[i]
        if isinstance(e, ast.Compare) and len(e.ops) == 1:
            a = self._fold(e.left, cls, mod, env)
            b = self._fold(e.comparators[0], cls, mod, env)
            op = e.ops[0]
            table = {ast.Lt: lambda: a < b, ast.LtE: lambda: a <= b, ast.Gt: lambda: a > b, ast.GtE: lambda: a >= b,
                     ast.Eq: lambda: a == b, ast.NotEq: lambda: a != b}
            if type(op) in table:
                return table[type(op)]()
            raise _NoFold
        if isinstance(e, ast.IfExp):
            t = self._fold(e.test, cls, mod, env)
            return self._fold(e.body if t else e.orelse, cls, mod, env)
        if isinstance(e, ast.Call):
            fn = unparse(e.func)
            args = [self._fold(a, cls, mod, env) for a in e.args]
            short = fn.split(".")[-1]
            if fn in ("len", "min", "max", "abs", "int", "bool", "float", "sum", "tuple", "list", "bytes", "str"):
                if fn == "str" or fn == "float" and False:
                    raise _NoFold
                return {"len": len, "min": min, "max": max, "abs": abs, "int": int, "bool": bool, "float": float,
                        "sum": sum, "tuple": tuple, "list": list, "bytes": bytes}[fn](*args)
            if short == "b64decode" and len(args) == 1:
                import base64

                return base64.b64decode(args[0])
            if short == "_towards_zero_division" and len(args) == 2 and all(isinstance(a, int) for a in args):
                q = abs(args[0]) // abs(args[1])
                return q if (args[0] >= 0) == (args[1] >= 0) else -q
            if short == "_csharp_modulo" and len(args) == 2 and all(isinstance(a, int) for a in args):
                r = abs(args[0]) % abs(args[1])
                return r if args[0] >= 0 else -r
            if short in ("_int32_overflow", "_int64_overflow") and len(args) == 1 and isinstance(args[0], int):
                bits = 32 if "32" in short else 64
                mx = 2 ** (bits - 1)
                return (args[0] + mx) % (2**bits) - mx
            if short == "Decimal" and len(args) == 1 and isinstance(args[0], int):
                return args[0]
            raise _NoFold
        raise _NoFold

    # ------------------------------------------------------------------ types (annotation driven)
    def ann_type(self, ann: ast.expr | None, mod: Mod | None = None) -> Any:
        """Map an annotation to a light type: class name (str), ('list', T), ('tuple', [..]), ('opt', T) collapsed."""
        if ann is None:
            return None
        if isinstance(ann, ast.Constant):
            if isinstance(ann.value, str):
                try:
                    return self.ann_type(ast.parse(ann.value, mode="eval").body, mod)
                except SyntaxError:
                    return None
            if ann.value is None:
                return "None"
            return None
        if isinstance(ann, ast.Name):
            return ann.id
        if isinstance(ann, ast.Attribute):
            return ann.attr
        if isinstance(ann, ast.BinOp) and isinstance(ann.op, ast.BitOr):
            ts = [t for t in (self.ann_type(ann.left, mod), self.ann_type(ann.right, mod)) if t not in (None, "None")]
            if len(ts) == 1:
                return ts[0]
            if len(ts) == 2 and ts[0] == ts[1]:
                return ts[0]
            if ts:
                return ("union", ts)
            return None
        if isinstance(ann, ast.Subscript):
            head = unparse(ann.value).split(".")[-1]
            sl = ann.slice
            if head in ("Final", "ClassVar", "Annotated", "Optional"):
                inner = sl.elts[0] if isinstance(sl, ast.Tuple) else sl
                return self.ann_type(inner, mod)
            if head in ("list", "List", "Sequence", "Iterable", "Iterator", "set", "frozenset", "Collection", "Generator", "MutableSequence"):
                inner = sl.elts[0] if isinstance(sl, ast.Tuple) else sl
                return ("list", self.ann_type(inner, mod))
            if head in ("tuple", "Tuple"):
                if isinstance(sl, ast.Tuple):
                    if len(sl.elts) == 2 and isinstance(sl.elts[1], ast.Constant) and sl.elts[1].value is Ellipsis:
                        return ("list", self.ann_type(sl.elts[0], mod))
                    return ("tuple", [self.ann_type(x, mod) for x in sl.elts])
                return ("tuple", [self.ann_type(sl, mod)])
            if head in ("dict", "Dict", "Mapping", "MutableMapping", "MappingProxyType", "defaultdict"):
                if isinstance(sl, ast.Tuple) and len(sl.elts) == 2:
                    return ("dict", self.ann_type(sl.elts[0], mod), self.ann_type(sl.elts[1], mod))
                return ("dict", None, None)
            if head == "type":
                t = self.ann_type(sl, mod)
                return ("type", t) if isinstance(t, str) else None
            if head == "Callable":
                if isinstance(sl, ast.Tuple) and len(sl.elts) == 2:
                    return ("callable", self.ann_type(sl.elts[1], mod))
                return ("callable", None)
            return head
        return None


# documented constants of the standard library that the repo compares against (datetime range)
STDLIB_CONSTS = {
    "datetime.datetime.min.year": 1, "datetime.datetime.max.year": 9999, "datetime.date.min.year": 1, "datetime.date.max.year": 9999,
    "datetime.MINYEAR": 1, "datetime.MAXYEAR": 9999,
}


class _NoFold(Exception):
    pass


class _Unknown:
    def __repr__(self) -> str:
        return "UNKNOWN"

    def __bool__(self) -> bool:
        return False


UNKNOWN = _Unknown()

_MODEL_CACHE: dict[str, Model] = {}


def get_model(repo: str | None = None) -> Model:
    r = repo or REPO
    if r not in _MODEL_CACHE:
        _MODEL_CACHE[r] = Model(r)
    return _MODEL_CACHE[r]
