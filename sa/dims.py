"""E3 - dimension (unit-of-measure) inference from the repo's own naming conventions.

Seeds: PyodaConstants.A_PER_B (ratio A/B); unit-named API members (`from_A`, `plus_A`, `advance_A`, `from_unix_time_A`,
`to_unix_time_A`, `from_A_since_midnight`, `total_A`, Period/Duration component `.A`, `_A_field`, `_TimePeriodField._A`,
`PeriodUnits.A`, `A_of_B`, timedelta `.days/.seconds/.microseconds`, `time.time_ns()`).  Local variables are never
seeded from their names: they get the unit of their (single) definition.  Unknown stays unknown and is never reported;
a report is a definite disagreement between two seeded/inferred units in one expression, call or dispatch arm.
"""
from __future__ import annotations

import ast
import re
from typing import Any

from .core import Ctx, RuleResult
from .kit import own_nodes
from .model import Func, unparse

UNITS = ["nanoseconds", "ticks", "microseconds", "milliseconds", "seconds", "minutes", "hours", "days", "weeks", "months", "years"]
SING = {u[:-1]: u for u in UNITS}
WORD = {**{u: u for u in UNITS}, **SING}
CONFLICT = ("conflict",)


def word_unit(tok: str) -> str | None:
    return WORD.get(tok.lower())


def const_ratio(name: str) -> tuple[str, str] | None:
    m = re.fullmatch(r"_?([A-Z]+)_PER_([A-Z]+)", name)
    if m:
        a, b = word_unit(m.group(1)), word_unit(m.group(2))
        if a and b:
            return (a, b)
    return None


def name_unit(name: str) -> str | None:
    """Unit named by an API member: the first unit word of the identifier (after stripping verbs/prefixes)."""
    n = name.strip("_")
    if "_per_" in n.lower():
        return None
    toks = n.lower().split("_")
    # verbs / qualifiers that precede the unit word
    skip = {"from", "to", "plus", "minus", "advance", "total", "subsecond", "unix", "time", "bcl", "compatible", "floor", "get", "with", "add", "in", "of", "since"}
    for i, t in enumerate(toks):
        if t in skip:
            continue
        u = word_unit(t)
        if u:
            # singular words name an amount only in the `<unit>_of_<container>` form (nanosecond_of_day, tick_of_second);
            # `hour`, `day`, `_DAY_BITS`, `day_of_week`... are field values / widths, not amounts
            if t in SING:
                if i + 2 < len(toks) + 0 and toks[i + 1] == "of" and word_unit(toks[i + 2]) and t not in ("day", "month", "year", "week", "hour", "minute", "second"):
                    return u
                return None
            return u
        return None
    return None


API_PREFIXES = ("from_unix_time_", "to_unix_time_", "from_", "plus_", "advance_", "total_", "subsecond_")


def api_param_unit(fname: str) -> str | None:
    """Unit of the (first numeric) parameter / result of a unit-named API function."""
    n = fname.strip("_")
    for p in API_PREFIXES:
        if n.startswith(p):
            rest = n[len(p):]
            toks = rest.split("_")
            u = word_unit(toks[0])
            if u and (len(toks) == 1 or toks[1:] in (["since", "midnight"],)):
                return u
    return None


class Dims:
    def __init__(self, ctx: Ctx, fn: Func) -> None:
        self.ctx, self.fn = ctx, fn
        self.defs: dict[str, list[ast.expr]] = {}
        self.param_units: dict[str, str] = {}
        self.problems: list[tuple[ast.AST, str]] = []
        self._busy: set[str] = set()
        node = fn.node
        if not isinstance(node, ast.Lambda):
            for n in own_nodes(node):
                if isinstance(n, ast.Assign) and len(n.targets) == 1 and isinstance(n.targets[0], ast.Name):
                    self.defs.setdefault(n.targets[0].id, []).append(n.value)
                elif isinstance(n, ast.AnnAssign) and isinstance(n.target, ast.Name) and n.value is not None:
                    self.defs.setdefault(n.target.id, []).append(n.value)
                elif isinstance(n, ast.AugAssign) and isinstance(n.target, ast.Name):
                    self.defs.setdefault(n.target.id, []).append(n.value if isinstance(n.op, (ast.Add, ast.Sub)) else ast.Constant(value=None))
                elif isinstance(n, ast.NamedExpr):
                    self.defs.setdefault(n.target.id, []).append(n.value)
        u = api_param_unit(fn.name)
        if u and fn.value_params:
            self.param_units[fn.value_params[0].arg] = u

    def problem(self, node: ast.AST, msg: str) -> None:
        self.problems.append((node, msg))

    def dim(self, e: ast.expr | None) -> Any:
        """unit string | ('ratio', A, B) | None (unknown) | CONFLICT"""
        if e is None:
            return None
        if isinstance(e, ast.Constant):
            return None
        if isinstance(e, ast.Name):
            if e.id in self.param_units:
                return self.param_units[e.id]
            if e.id in self._busy:
                return None
            ds = self.defs.get(e.id)
            if ds:
                self._busy.add(e.id)
                try:
                    us = {self.dim(d) for d in ds}
                finally:
                    self._busy.discard(e.id)
                us.discard(None)
                if len(us) == 1:
                    return us.pop()
                if len(us) > 1 and CONFLICT not in us:
                    return None
            return None
        if isinstance(e, ast.Attribute):
            r = const_ratio(e.attr)
            if r:
                return ("ratio", r[0], r[1])
            if isinstance(e.value, ast.Name) and e.value.id == "PeriodUnits":
                return word_unit(e.attr)
            u = name_unit(e.attr)
            return u
        if isinstance(e, ast.UnaryOp):
            return self.dim(e.operand)
        if isinstance(e, ast.IfExp):
            a, b = self.dim(e.body), self.dim(e.orelse)
            return a if a == b or b is None else (b if a is None else None)
        if isinstance(e, ast.BinOp):
            a, b = self.dim(e.left), self.dim(e.right)
            if isinstance(e.op, (ast.Add, ast.Sub)):
                if isinstance(a, str) and isinstance(b, str) and a != b:
                    self.problem(e, f"adds/subtracts {a} and {b}: `{unparse(e)[:90]}`")
                    return CONFLICT
                return a if isinstance(a, str) else (b if isinstance(b, str) else None)
            if isinstance(e.op, ast.Mult):
                for x, y in ((a, b), (b, a)):
                    if isinstance(x, tuple) and x[0] == "ratio":
                        if isinstance(y, str) and y != x[2]:
                            self.problem(e, f"multiplies a quantity in {y} by {x[1]}-per-{x[2]}: `{unparse(e)[:90]}`")
                            return CONFLICT
                        if isinstance(y, tuple) and y[0] == "ratio":
                            if y[1] == x[2]:
                                return ("ratio", x[1], y[2])
                            if x[1] == y[2]:
                                return ("ratio", y[1], x[2])
                            return None
                        return x[1]
                # multiplication by a bare numeric literal is a magic-number conversion: unit unknown
                if isinstance(e.left, ast.Constant) or isinstance(e.right, ast.Constant):
                    return None
                return a if isinstance(a, str) and b is None else (b if isinstance(b, str) and a is None else None)
            if isinstance(e.op, (ast.FloorDiv, ast.Div)):
                return self._divide(e, a, b)
            if isinstance(e.op, ast.Mod):
                return a if isinstance(a, str) else None
            if isinstance(e.op, (ast.RShift, ast.LShift, ast.BitAnd, ast.BitOr)):
                return None
            return None
        if isinstance(e, ast.Call):
            fx = e.func
            short = unparse(fx).split(".")[-1]
            if short == "_towards_zero_division" and len(e.args) == 2:
                return self._divide(e, self.dim(e.args[0]), self.dim(e.args[1]))
            if short == "_csharp_modulo" and len(e.args) == 2:
                a, m = self.dim(e.args[0]), self.dim(e.args[1])
                if isinstance(a, str) and isinstance(m, tuple) and m[0] == "ratio" and m[1] != a:
                    self.problem(e, f"reduces a quantity in {a} modulo {m[1]}-per-{m[2]}: `{unparse(e)[:90]}`")
                    return CONFLICT
                return a if isinstance(a, str) else (m[1] if isinstance(m, tuple) and m[0] == "ratio" else None)
            if short in ("_int32_overflow", "_int64_overflow", "int", "abs", "float") and e.args:
                return self.dim(e.args[0])
            if short in ("min", "max") and e.args:
                us = {self.dim(a) for a in e.args} - {None}
                return us.pop() if len(us) == 1 else None
            if short == "time_ns":
                return "nanoseconds"
            # unit-named API call: check the argument, result unit = named unit for to_/total_ accessors, units_between on fields
            self.check_api_call(e)
            if isinstance(fx, ast.Attribute):
                if short in ("units_between", "_units_between", "_get_units_in_duration"):
                    return self.dim(fx.value)
                if short.startswith(("to_unix_time_", "total_")):
                    return api_param_unit(short)
                if short.startswith("to_") and name_unit(short):
                    return name_unit(short)
                if short in ("_internal_days_between", "days_between"):
                    return "days"
            return None
        if isinstance(e, ast.Subscript):
            return None
        return None

    def _divide(self, e: ast.AST, a: Any, b: Any) -> Any:
        if isinstance(b, tuple) and b[0] == "ratio":
            if isinstance(a, str) and a != b[1]:
                self.problem(e, f"divides a quantity in {a} by {b[1]}-per-{b[2]}: `{unparse(e)[:90]}`")
                return CONFLICT
            if isinstance(a, tuple) and a[0] == "ratio":
                return ("ratio", a[1], b[1]) if a[2] == b[2] else None
            return b[2]
        if isinstance(a, tuple) and a[0] == "ratio" and isinstance(b, tuple) and b[0] == "ratio":
            return None
        if isinstance(a, str) and b is None:
            return None
        return None

    def check_api_call(self, c: ast.Call) -> None:
        fx = c.func
        if not isinstance(fx, ast.Attribute):
            return
        u = api_param_unit(fx.attr)
        if u is None or not fx.attr.strip("_").startswith(("from_", "plus_", "advance_")):
            return
        if not c.args and not c.keywords:
            return
        arg = c.args[0] if c.args else c.keywords[0].value
        d = self.dim(arg)
        if isinstance(d, str) and d != u:
            self.problem(c, f"passes a quantity in {d} to {fx.attr}(), which takes {u}: `{unparse(c)[:100]}`")


def _kw_generic(self: Dims, c: ast.Call) -> None:
    """Within one call, keywords named `<a>_per_<b>` bound to A_PER_B constants and a `units=` keyword must agree on the
    generic word `unit(s)` (e.g. units=hours, units_per_day=HOURS_PER_DAY, nanos_per_unit=NANOSECONDS_PER_HOUR)."""
    generic: dict[str, str] = {}

    def bind(word: str, unit: str, kw: str) -> None:
        w = word.lower().rstrip("s")
        if w in ("unit",):
            if "unit" in generic and generic["unit"] != unit:
                self.problem(c, f"keyword {kw}= implies the generic unit is {unit}, another keyword of the same call says {generic['unit']}: `{unparse(c)[:110]}`")
            generic.setdefault("unit", unit)
        else:
            named = word_unit(w) or word_unit(w + "s") or {"nano": "nanoseconds", "milli": "milliseconds", "micro": "microseconds"}.get(w)
            if named and named != unit:
                self.problem(c, f"keyword {kw}= is bound to a constant measuring {unit}, its name says {named}: `{unparse(c)[:110]}`")

    for kw in c.keywords:
        if not kw.arg:
            continue
        if kw.arg == "units":
            d = self.dim(kw.value)
            if isinstance(d, str):
                bind("unit", d, kw.arg)
        elif "_per_" in kw.arg:
            d = self.dim(kw.value)
            if isinstance(d, tuple) and d[0] == "ratio":
                a, b = kw.arg.split("_per_", 1)
                bind(a, d[1], kw.arg)
                bind(b, d[2], kw.arg)


Dims.check_generic_unit_keywords = _kw_generic  # type: ignore[attr-defined]


def check_function_units(ctx: Ctx, rr: RuleResult, fn: Func) -> int:
    """Evaluate every expression statement / return / call of fn for definite unit conflicts. Returns #expressions checked."""
    if isinstance(fn.node, ast.Lambda):
        return 0
    D = Dims(ctx, fn)
    n = 0
    for node in own_nodes(fn.node):
        if isinstance(node, (ast.Return, ast.Assign, ast.AnnAssign, ast.AugAssign, ast.Expr)) and getattr(node, "value", None) is not None:
            v = node.value
            if any(isinstance(x, (ast.BinOp, ast.Call)) for x in ast.walk(v)):
                n += 1
                D.dim(v)
                for sub in ast.walk(v):
                    if isinstance(sub, ast.Call):
                        D.check_api_call(sub)
                        D.check_generic_unit_keywords(sub)
                        for kw in sub.keywords:
                            # keyword construction Period._ctor(hours=...), PeriodBuilder(hours=...)
                            ku = word_unit(kw.arg) if kw.arg else None
                            if ku and kw.arg in UNITS and unparse(sub.func).split(".")[-1] in ("_ctor", "PeriodBuilder", "Period"):
                                d = D.dim(kw.value)
                                if isinstance(d, str) and d != ku:
                                    D.problem(sub, f"keyword {kw.arg}= receives a quantity in {d}: `{unparse(kw.value)[:80]}`")
    seen = set()
    for node, msg in D.problems:
        k = (getattr(node, "lineno", 0), msg)
        if k in seen:
            continue
        seen.add(k)
        rr.fail(fn.qual, msg, ctx.loc(fn, node))
    return n


def check_dispatch_arms(ctx: Ctx, rr: RuleResult, fn: Func) -> None:
    """`match units: case PeriodUnits.U: return cls.from_F(<expr>)`  =>  U == F == unit(<expr>)."""
    D = Dims(ctx, fn)
    for m in own_nodes(fn.node):
        if not isinstance(m, ast.Match):
            continue
        for case in m.cases:
            if not (isinstance(case.pattern, ast.MatchValue) and isinstance(case.pattern.value, ast.Attribute)):
                continue
            u = word_unit(case.pattern.value.attr)
            if u is None:
                continue
            for st in case.body:
                if isinstance(st, ast.Return) and isinstance(st.value, ast.Call) and isinstance(st.value.func, ast.Attribute):
                    rr.inst()
                    call = st.value
                    f_u = api_param_unit(call.func.attr)
                    arg_u = D.dim(call.args[0]) if call.args else None
                    probs = []
                    if f_u is not None and f_u != u:
                        probs.append(f"builds the result with {call.func.attr}()")
                    if isinstance(arg_u, str) and arg_u != u:
                        probs.append(f"from a quantity in {arg_u}")
                    if probs:
                        rr.fail(fn.qual, f"arm `case {unparse(case.pattern.value)}` " + " ".join(probs) + f": `{unparse(call)[:100]}`", ctx.loc(fn, st))
                    else:
                        rr.ok({"arm": unparse(case.pattern.value), "factory": call.func.attr, "quantity_unit": arg_u})


def units_rule(ctx: Ctx, rule_id: str, prop: str, min_instances: int) -> RuleResult:
    from .core import anchor_files

    rr = RuleResult(rule_id, "no expression, API call or constructor keyword combines quantities of different units", min_instances=min_instances)
    files = anchor_files(prop)
    n = 0
    for f in sorted(ctx.M.funcs.values(), key=lambda x: x.qual):
        if f.mod.rel in files:
            n += check_function_units(ctx, rr, f)
    rr.instances += n
    rr.nontrivial += n
    rr.proved += max(0, n - len(rr.findings))
    return rr
