"""Summaries of two text-cursor primitives for the range prover, each applied only while the code still has the shape that
justifies it (otherwise the prover falls back to 'unknown int' and the obligations depending on it are reported).

* _PatternCursor.get_repeat_count(maximum_count) in [1, maximum_count]: the result is `self.index - start` where start was
  the index before a loop that calls move_next() at least once, and a result above maximum_count raises.
* _ValueCursor._parse_fraction(maximum_digits, scale, minimum_digits) returns (bool, v) with 0 <= v < 10**scale: v accumulates
  `count` decimal digits (v < 10**count) and is scaled by 10**(scale - count).
"""
from __future__ import annotations

import ast
import re
from typing import Any

from .absint import AV, BOOL, Interp, Iv, Tup, TOPINT
from .core import Ctx
from .exc import facts_at
from .kit import own_nodes
from .model import Func, unparse


def _repeat_count_ok(ctx: Ctx) -> bool:
    f = ctx.M.func("_PatternCursor.get_repeat_count", required=False)
    if f is None or isinstance(f.node, ast.Lambda):
        return False
    params = [a.arg for a in f.value_params]
    if len(params) != 1:
        return False
    mx = params[0]
    rets = [n for n in own_nodes(f.node) if isinstance(n, ast.Return) and n.value is not None]
    if len(rets) != 1 or not isinstance(rets[0].value, ast.Name):
        return False
    r = rets[0].value.id
    defs = ctx.R.scope(f).defs.get(r, [])
    if len(defs) != 1 or not re.fullmatch(r"self\.index - (\w+)", unparse(defs[0])):
        return False
    start = re.fullmatch(r"self\.index - (\w+)", unparse(defs[0])).group(1)  # type: ignore[union-attr]
    sdefs = ctx.R.scope(f).defs.get(start, [])
    if len(sdefs) != 1 or unparse(sdefs[0]) != "self.index":
        return False
    loops = [n for n in own_nodes(f.node) if isinstance(n, ast.While) and "self.move_next()" in unparse(n.test).split(" and ")[0]]
    if not loops or loops[0].lineno > defs[0].lineno or loops[0].lineno < sdefs[0].lineno:
        return False
    guards = [n for n in own_nodes(f.node) if isinstance(n, ast.Raise) and (r, ">", mx) in facts_at(n)]
    return bool(guards)


def _parse_fraction_ok(ctx: Ctx) -> bool:
    f = ctx.M.func("_ValueCursor._parse_fraction", required=False)
    if f is None or isinstance(f.node, ast.Lambda):
        return False
    params = [a.arg for a in f.value_params]
    if len(params) != 3:
        return False
    scale = params[1]
    src = [unparse(n) for n in own_nodes(f.node) if isinstance(n, (ast.Assign, ast.AnnAssign))]
    acc = [m for s in src for m in [re.fullmatch(r"(\w+) = \1 \* 10 \+ int\((\w+)\)", s)] if m]
    if not acc:
        return False
    x = acc[0].group(1)
    cnt = [m for s in src for m in [re.fullmatch(r"(\w+)(?:: int)? = (\w+) - self\.index", s)] if m]
    if not cnt:
        return False
    c = cnt[0].group(1)
    scaled = [s for s in src if re.fullmatch(rf"{x} = int\({x} \* math\.pow\(10\.0, {scale} - {c}\)\)", s)]
    zero = [s for s in src if s == f"{x} = 0"]
    return bool(scaled) and bool(zero)


def apply_text_summaries(ctx: Ctx, I: Interp) -> list[str]:
    applied = []
    if ctx.cache.setdefault("textsum.rc", _repeat_count_ok(ctx)):
        def rc(args: list[AV], kws: dict[str, AV], recv: AV | None) -> AV:
            m = args[0] if args else kws.get("maximum_count")
            if isinstance(m, Iv) and m.bounded:
                return Iv(1, m.hi, True)
            return Iv(1, float("inf"), False)
        I.stubs["_PatternCursor.get_repeat_count"] = rc
        applied.append("get_repeat_count in [1, maximum_count]")
    if ctx.cache.setdefault("textsum.pf", _parse_fraction_ok(ctx)):
        def pf(args: list[AV], kws: dict[str, AV], recv: AV | None) -> AV:
            s = args[1] if len(args) > 1 else kws.get("scale")
            if isinstance(s, Iv) and s.const and 0 <= s.lo <= 30:
                return Tup([BOOL, Iv(0, 10 ** int(s.lo) - 1, True)])
            return Tup([BOOL, Iv(0, float("inf"), False)])
        I.stubs["_ValueCursor._parse_fraction"] = pf
        applied.append("_parse_fraction result in [0, 10**scale - 1]")
    return applied
