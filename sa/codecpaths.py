"""Codec field correspondence: the k-th value written comes from the same field (access path) that the k-th value read ends up in.

R14.1 compares the *kinds* of primitives; two fields of the same kind written in one order and restored in the other (or a decoder
that hands the right values to the wrong constructor parameters) leave the sequences equal.  Here each I/O call site is labelled with

  writer:  the self-rooted access paths its argument is computed from          self.__standard_recurrence.name -> standard_recurrence.name
  reader:  the access paths of the *result object* the value read flows into    name -> _ZoneRecurrence(name=..) -> _ctor(standard_recurrence=..)
                                                                               -> standard_recurrence.name

through constructor parameter -> stored-field maps read from the constructors themselves.  The two labellings must be prefix-compatible
site by site.  Pure syntax-tree dataflow; nothing is executed.
"""
from __future__ import annotations

import ast
import re
from typing import Iterator

from .core import Ctx
from .kit import bind_args, own_nodes
from .model import Cls, Func, unparse

Path = tuple[str, ...]


def norm_name(n: str) -> str:
    n = re.sub(r"^_[A-Za-z0-9]+__", "", n)
    return n.strip("_")


def _field_of_property(ctx: Ctx, c: Cls | None, name: str) -> str:
    """property `name` of class c that just returns a stored field -> that field's normalised name"""
    if c is not None:
        f = ctx.M.find_method(c, name)
        if f is not None and f.kind == "property":
            rets = [n for n in own_nodes(f.node) if isinstance(n, ast.Return) and n.value is not None]
            if len(rets) == 1 and isinstance(rets[0].value, ast.Attribute) and isinstance(rets[0].value.value, ast.Name) and rets[0].value.value.id == f.self_name:
                return norm_name(rets[0].value.attr)
    return norm_name(name)


def io_sites(fn: Func, io: str) -> list[ast.Call]:
    """I/O call sites of a codec method in evaluation order (post-order; conditional expressions test-first, comprehensions iterable-first)."""
    out: list[ast.Call] = []

    def is_site(n: ast.AST) -> bool:
        if isinstance(n, ast.Call) and isinstance(n.func, ast.Attribute):
            fx = n.func
            if isinstance(fx.value, ast.Name) and fx.value.id == io and fx.attr.startswith(("write_", "read_")):
                return True
            if fx.attr in ("_write", "write", "read", "_read") and any(isinstance(a, ast.Name) and a.id == io for a in n.args):
                return True
        return False

    def walk(n: ast.AST) -> None:
        if isinstance(n, (ast.FunctionDef, ast.AsyncFunctionDef, ast.Lambda, ast.ClassDef)) and n is not fn.node:
            return
        if isinstance(n, ast.IfExp):
            walk(n.test), walk(n.body), walk(n.orelse)
            return
        if isinstance(n, (ast.ListComp, ast.GeneratorExp, ast.SetComp)):
            for g in n.generators:
                walk(g)
            walk(n.elt)
            return
        for ch in ast.iter_child_nodes(n):
            walk(ch)
        if is_site(n):
            out.append(n)  # type: ignore[arg-type]

    walk(fn.node)
    return out


def site_kind(c: ast.Call) -> str:
    a = c.func.attr  # type: ignore[attr-defined]
    for p in ("write_", "read_"):
        if a.startswith(p):
            return a[len(p):]
    return "@"


# ---------------------------------------------------------------------------------------------------------------- writer


def writer_paths(ctx: Ctx, fn: Func, io: str, want_paths_fn: bool = False) -> list[tuple[ast.Call, set[Path]]]:
    self_name = fn.self_name or "self"
    roots: dict[str, set[Path]] = {self_name: {()}}
    # loop variables over self-rooted collections; locals (flow-insensitive union of everything assigned to them)
    changed = True

    def paths(e: ast.AST) -> set[Path]:
        out: set[Path] = set()
        if isinstance(e, ast.Attribute):
            chain = []
            x: ast.AST = e
            while isinstance(x, ast.Attribute):
                chain.append(x.attr)
                x = x.value
            chain.reverse()
            if isinstance(x, ast.Name) and x.id in roots:
                for base in roots[x.id]:
                    els = list(base)
                    for i, a in enumerate(chain):
                        els.append(_field_of_property(ctx, fn.cls, a) if (not base and i == 0 and x.id == self_name) else norm_name(a))
                    out.add(tuple(els))
                return out
            return paths(x)
        if isinstance(e, ast.Name):
            if e.id in roots and e.id != self_name:
                return set(roots[e.id])
            return out
        if isinstance(e, ast.Call) and isinstance(e.func, ast.Name) and e.func.id == "len" and e.args:
            return {p + ("#len",) for p in paths(e.args[0])}
        if isinstance(e, ast.Call):
            if isinstance(e.func, ast.Attribute):
                out |= paths(e.func.value)
            for a in e.args:
                out |= paths(a)
            for k in e.keywords:
                out |= paths(k.value)
            return out
        for ch in ast.iter_child_nodes(e):
            out |= paths(ch)
        return out

    while changed:
        changed = False
        for n in own_nodes(fn.node):
            tgt, src = None, None
            if isinstance(n, ast.For) and isinstance(n.target, ast.Name):
                tgt, src = n.target.id, {p + ("[]",) for p in paths(n.iter)}
            elif isinstance(n, (ast.Assign, ast.AnnAssign, ast.AugAssign)) and getattr(n, "value", None) is not None:
                t = n.targets[0] if isinstance(n, ast.Assign) else n.target
                if isinstance(t, ast.Name):
                    tgt, src = t.id, paths(n.value)
                    # control dependence of conditional updates is deliberately not a data path
            elif isinstance(n, ast.NamedExpr):
                tgt, src = n.target.id, paths(n.value)
            if tgt and src and not src <= roots.get(tgt, set()):
                roots.setdefault(tgt, set()).update(src)
                changed = True
    if want_paths_fn:
        return paths  # type: ignore[return-value]
    out = []
    for c in io_sites(fn, io):
        if site_kind(c) == "@":
            out.append((c, paths(c.func.value)))  # type: ignore[attr-defined]
        else:
            ps: set[Path] = set()
            for a in c.args:
                ps |= paths(a)
            out.append((c, ps))
    return out


# ---------------------------------------------------------------------------------------------------------------- reader


CTOR_NAMES = ("__init__", "_ctor", "__ctor", "__new__")


def ctor_param_fields(ctx: Ctx, f: Func, lits: dict[tuple[str, str], str] | None = None) -> dict[str, set[str]]:
    """constructor parameter -> normalised names of the fields it is stored in.
    Flow-sensitive over the constructor body (strong updates of locals, both arms of undecided branches).  `lits` gives fields of
    argument objects that the caller built from a literal ((param, field) -> source text): a branch `if <param>.<field> == <same text>`
    is then decided, which is how a constructor that normalises the order of its arguments stays precise."""
    lits = lits or {}
    selfs = {f.self_name} if f.kind == "method" else set()
    for n in own_nodes(f.node):
        if isinstance(n, ast.Assign) and isinstance(n.targets[0], ast.Name) and isinstance(n.value, ast.Call) and "__new__" in unparse(n.value.func):
            selfs.add(n.targets[0].id)
    params = {a.arg for a in f.value_params}
    out: dict[str, set[str]] = {}

    def srcs(e: ast.AST, env: dict[str, set[str]]) -> set[str]:
        r: set[str] = set()
        for x in ast.walk(e):
            if isinstance(x, ast.Name) and x.id in env:
                r |= env[x.id]
        return r

    def decide(t: ast.expr, env: dict[str, set[str]]) -> bool | None:
        if isinstance(t, ast.Compare) and len(t.ops) == 1 and isinstance(t.ops[0], (ast.Eq, ast.NotEq)):
            a, b = t.left, t.comparators[0]
            for x, y in ((a, b), (b, a)):
                if isinstance(x, ast.Attribute) and isinstance(x.value, ast.Name):
                    ps = env.get(x.value.id, set())
                    if len(ps) == 1:
                        lit = lits.get((next(iter(ps)), norm_name(x.attr)))
                        if lit is not None and lit == unparse(y):
                            return isinstance(t.ops[0], ast.Eq)
        return None

    def delegate(call: ast.Call, env: dict[str, set[str]]) -> None:
        if isinstance(call.func, ast.Attribute) and call.func.attr in CTOR_NAMES and call.func.attr != "__new__":
            tg, how = ctx.R.callees(call, f, count=False)
            for t in tg[:1]:
                if t is f:
                    continue
                inner = ctor_param_fields(ctx, t)
                for p, arg in bind_args(call, t).items():
                    for q in srcs(arg, env):
                        out.setdefault(q, set()).update(inner.get(p, set()))

    def block(body: list[ast.stmt], env: dict[str, set[str]]) -> dict[str, set[str]]:
        for s in body:
            if isinstance(s, (ast.Assign, ast.AnnAssign)) and getattr(s, "value", None) is not None:
                for c in ast.walk(s.value):
                    if isinstance(c, ast.Call):
                        delegate(c, env)
                ts = s.targets if isinstance(s, ast.Assign) else [s.target]
                v = srcs(s.value, env)
                for t in ts:
                    if isinstance(t, ast.Name) and t.id not in selfs:
                        env[t.id] = set(v)
                    elif isinstance(t, ast.Attribute) and isinstance(t.value, ast.Name) and t.value.id in selfs:
                        for p in v:
                            out.setdefault(p, set()).add(norm_name(t.attr))
            elif isinstance(s, ast.If):
                d = decide(s.test, env)
                if d is True:
                    env = block(s.body, env)
                elif d is False:
                    env = block(s.orelse, env)
                else:
                    e1 = block(s.body, {k: set(v) for k, v in env.items()})
                    e2 = block(s.orelse, {k: set(v) for k, v in env.items()})
                    env = {k: e1.get(k, set()) | e2.get(k, set()) for k in set(e1) | set(e2)}
            elif isinstance(s, (ast.For, ast.While, ast.With, ast.Try)):
                for part in ("body", "orelse", "finalbody"):
                    sub = getattr(s, part, None)
                    if sub:
                        e1 = block(sub, {k: set(v) for k, v in env.items()})
                        env = {k: env.get(k, set()) | e1.get(k, set()) for k in set(env) | set(e1)}
                for h in getattr(s, "handlers", []):
                    e1 = block(h.body, {k: set(v) for k, v in env.items()})
                    env = {k: env.get(k, set()) | e1.get(k, set()) for k in set(env) | set(e1)}
            elif isinstance(s, ast.Expr):
                for c in ast.walk(s.value):
                    if isinstance(c, ast.Call):
                        delegate(c, env)
        return env

    block(f.body, {p: {p} for p in params})
    return out


def reader_paths(ctx: Ctx, fn: Func, io: str) -> tuple[list[tuple[ast.Call, set[Path]]], list[str]]:
    sites = io_sites(fn, io)
    idx = {id(c): k for k, c in enumerate(sites)}
    env: dict[str, set[tuple[int, Path]]] = {}
    notes: list[str] = []
    ctor_cache: dict = {}
    _inlining: set[int] = set()

    def ctor_of(call: ast.Call) -> Func | None:
        tg, how = ctx.R.callees(call, fn, count=False)
        if how != "resolved" or not tg:
            return None
        cands = [t for t in tg if t.name.split(".")[-1] in CTOR_NAMES or re.sub(r"^_[A-Za-z0-9]+__", "__", t.name) in CTOR_NAMES]
        for t in cands:
            if t.name != "__new__":
                return t
        return cands[0] if cands else None

    def literal_fields(arg: ast.expr) -> dict[str, str]:
        """fields of an argument object that the decoder fills from a literal (no value read from the stream flows in)"""
        call = arg
        if isinstance(arg, ast.Name):
            defs = [n for n in own_nodes(fn.node) if isinstance(n, (ast.Assign, ast.AnnAssign)) and getattr(n, "value", None) is not None
                    and isinstance((n.targets[0] if isinstance(n, ast.Assign) else n.target), ast.Name)
                    and (n.targets[0] if isinstance(n, ast.Assign) else n.target).id == arg.id]
            if len(defs) != 1:
                return {}
            call = defs[0].value
        if not isinstance(call, ast.Call):
            return {}
        c = ctor_of(call)
        if c is None:
            from .kit import inline_simple_call

            inl = inline_simple_call(ctx.R, call, fn)  # construction moved into a one-line helper
            if isinstance(inl, ast.Call) and ctor_of(inl) is not None:
                call, c = inl, ctor_of(inl)
        if c is None:
            return {}
        pf = ctor_param_fields(ctx, c)
        out: dict[str, str] = {}
        for p, a in bind_args(call, c).items():
            if not ev(a) and not any(isinstance(x, ast.Name) and x.id in env for x in ast.walk(a)) and isinstance(a, (ast.Attribute, ast.Constant)):
                for fld in pf.get(p, ()):
                    out[fld] = unparse(a)
        return out

    def ev(e: ast.AST | None) -> set[tuple[int, Path]]:
        if e is None:
            return set()
        if isinstance(e, ast.Call):
            if id(e) in idx:
                return {(idx[id(e)], ())}
            c = ctor_of(e)
            if c is not None:
                lits: dict[tuple[str, str], str] = {}
                for p, arg in bind_args(e, c).items():
                    for fld, text in literal_fields(arg).items():
                        lits[(p, fld)] = text
                ck = (id(c), tuple(sorted(lits.items())))
                if ck not in ctor_cache:
                    ctor_cache[ck] = ctor_param_fields(ctx, c, lits)
                pf = ctor_cache[ck]
                out: set[tuple[int, Path]] = set()
                for p, arg in bind_args(e, c).items():
                    vals = ev(arg)
                    if not vals:
                        continue
                    flds = pf.get(p)
                    if not flds:
                        notes.append(f"{c.qual}: parameter `{p}` is not stored in a field")
                        flds = {"?" + p}
                    for (k, path) in vals:
                        for fld in flds:
                            out.add((k, (fld,) + path))
                return out
            out = set()
            if isinstance(e.func, ast.Name) and e.func.id == "range":
                for a in e.args:
                    out |= {(k, ("#len",)) for k, _ in ev(a)}
                return out
            # a construction moved into a one-line helper (`return Ctor(name, savings, ...)`): seen through
            if id(e) not in _inlining:
                from .kit import inline_simple_call

                inl = inline_simple_call(ctx.R, e, fn)
                if isinstance(inl, ast.Call) and ctor_of(inl) is not None:
                    _inlining.add(id(e))
                    try:
                        return ev(inl)
                    finally:
                        _inlining.discard(id(e))
            if isinstance(e.func, ast.Attribute):
                out |= ev(e.func.value)
            for a in e.args:
                out |= ev(a)
            for kw in e.keywords:
                out |= ev(kw.value)
            return out
        if isinstance(e, (ast.ListComp, ast.GeneratorExp, ast.SetComp)):
            out = {(k, ("[]",) + p) for k, p in ev(e.elt)}
            for g in e.generators:
                out |= ev(g.iter)
            return out
        if isinstance(e, ast.Name):
            return set(env.get(e.id, set()))
        out = set()
        for ch in ast.iter_child_nodes(e):
            if isinstance(ch, (ast.expr, ast.comprehension)):
                out |= ev(ch)
        return out

    changed = True
    rounds = 0
    while changed and rounds < 8:
        changed = False
        rounds += 1
        for n in own_nodes(fn.node):
            if isinstance(n, (ast.Assign, ast.AnnAssign)) and getattr(n, "value", None) is not None:
                t = n.targets[0] if isinstance(n, ast.Assign) else n.target
                if isinstance(t, ast.Name):
                    v = ev(n.value)
                    if not v <= env.get(t.id, set()):
                        env.setdefault(t.id, set()).update(v)
                        changed = True
            elif isinstance(n, ast.Call) and isinstance(n.func, ast.Attribute) and n.func.attr in ("append", "add") and isinstance(n.func.value, ast.Name) and n.args:
                v = {(k, ("[]",) + p) for k, p in ev(n.args[0])}
                if not v <= env.get(n.func.value.id, set()):
                    env.setdefault(n.func.value.id, set()).update(v)
                    changed = True
            elif isinstance(n, ast.For) and isinstance(n.target, ast.Name):
                pass
    result: set[tuple[int, Path]] = set()
    for n in own_nodes(fn.node):
        if isinstance(n, ast.Return) and n.value is not None:
            result |= ev(n.value)
    per: list[set[Path]] = [set() for _ in sites]
    for k, p in result:
        per[k].add(p)
    return [(c, per[i]) for i, c in enumerate(sites)], notes


def compatible(a: Path, b: Path) -> bool:
    n = min(len(a), len(b))
    return a[:n] == b[:n]


def correspond(ctx: Ctx, c: Cls, w: Func, r: Func, wio: str, rio: str) -> Iterator[tuple[str, str, dict]]:
    """yields (status, message, detail): status in ok | skip | fail"""
    ws = writer_paths(ctx, w, wio)
    rs, notes = reader_paths(ctx, r, rio)
    wk = [site_kind(x) for x, _ in ws]
    rk = [site_kind(x) for x, _ in rs]
    def in_loop(c: ast.AST) -> bool:
        p = getattr(c, "_parent", None)
        while p is not None:
            if isinstance(p, (ast.For, ast.While, ast.ListComp, ast.GeneratorExp, ast.SetComp)):
                return True
            p = getattr(p, "_parent", None)
        return False

    if wk != rk or [in_loop(x) for x, _ in ws] != [in_loop(x) for x, _ in rs]:
        yield "skip", f"I/O call sites are not in the same textual order ({' '.join(wk)} / {' '.join(rk)}): rotated loop, compared by R14.1 only", {}
        return
    for k, ((wc, wp), (rc, rp)) in enumerate(zip(ws, rs)):
        show = lambda ps: sorted(".".join(p) for p in ps)  # noqa: E731
        if not wp or not rp:
            yield "skip", f"site {k} ({wk[k]}): no field path on one side (writer {show(wp)}, reader {show(rp)})", {}
            continue
        written_elsewhere = [p for j, (_, ps) in enumerate(ws) if j != k for p in ps]
        bad_w = [p for p in wp if not any(compatible(p, q) for q in rp)]
        # a value read here may also feed fields the constructor derives (never serialised); it must not feed a field that the
        # writer serialises from a *different* position
        bad_r = [q for q in rp if not any(compatible(p, q) for p in wp) and any(compatible(p, q) for p in written_elsewhere)]
        if bad_w or bad_r:
            yield "fail", (f"value #{k} ({wk[k]}) is written from `{', '.join(show(wp))}` but the decoder puts the value read at that position into "
                           f"`{', '.join(show(rp))}`" + (f" ({', '.join(show(bad_r))} is serialised from another position)" if bad_r else "")), {"writer_site": unparse(wc)[:100], "reader_site": unparse(rc)[:100], "node": rc}
        else:
            yield "ok", f"#{k} {wk[k]}: {', '.join(show(wp))} <-> {', '.join(show(rp))}", {}


# ------------------------------------------------------------------------------------------------- packed flag bytes


def _ctz(c: int) -> int:
    return (c & -c).bit_length() - 1


def _enclosing_tests(n: ast.AST, stop: ast.AST) -> list[ast.expr]:
    out = []
    ch, p = n, getattr(n, "_parent", None)
    while p is not None and p is not stop:
        if isinstance(p, ast.If) and (ch in p.body or ch in p.orelse):
            out.append(p.test)
        ch, p = p, getattr(p, "_parent", None)
    return out


def writer_components(ctx: Ctx, fn: Func, io: str, site: ast.Call) -> list[dict] | None:
    """Decompose the argument of a write_byte site into OR-ed components: (fields it is computed from incl. guarding tests, low bit)."""
    paths = writer_paths(ctx, fn, io, want_paths_fn=True)
    arg = site.args[0]
    comps: list[tuple[ast.expr, list[ast.expr]]] = []

    def split(e: ast.expr, guards: list[ast.expr]) -> None:
        if isinstance(e, ast.BinOp) and isinstance(e.op, ast.BitOr):
            split(e.left, guards), split(e.right, guards)
        elif isinstance(e, ast.Name):
            defs = [n for n in own_nodes(fn.node) if isinstance(n, (ast.Assign, ast.AnnAssign, ast.AugAssign)) and getattr(n, "value", None) is not None
                    and isinstance((n.targets[0] if isinstance(n, ast.Assign) else n.target), ast.Name) and (n.targets[0] if isinstance(n, ast.Assign) else n.target).id == e.id]
            if not defs:
                comps.append((e, guards))
            for d in defs:
                if isinstance(d, ast.AugAssign) and not isinstance(d.op, ast.BitOr):
                    comps.append((e, guards))
                    continue
                split(d.value, guards + _enclosing_tests(d, fn.node))
        else:
            comps.append((e, guards))

    split(arg, [])
    if len(comps) < 2:
        return None
    out = []
    for e, guards in comps:
        flds = set(paths(e))
        gf: set[Path] = set()
        for g in guards:
            gf |= paths(g)
        low = None
        if isinstance(e, ast.BinOp) and isinstance(e.op, ast.LShift) and isinstance(e.right, ast.Constant):
            low = e.right.value
        elif isinstance(e, ast.IfExp) and isinstance(e.body, ast.Constant) and isinstance(e.body.value, int) and isinstance(e.orelse, ast.Constant) and e.orelse.value == 0:
            low = _ctz(e.body.value)
        elif isinstance(e, ast.Constant) and isinstance(e.value, int) and e.value:
            low = _ctz(e.value)
        out.append({"text": unparse(e), "fields": flds, "guard_fields": gf, "low": low, "node": e})
    return out


def reader_components(ctx: Ctx, fn: Func, io: str, site: ast.Call, site_paths: set[Path]) -> dict[int, set[str]]:
    """low bit -> locals extracted from the byte read at `site` (`v >> s [& m]`, `v & c [!= 0]`)."""
    var = None
    p = getattr(site, "_parent", None)
    if isinstance(p, (ast.Assign, ast.AnnAssign)):
        t = p.targets[0] if isinstance(p, ast.Assign) else p.target
        if isinstance(t, ast.Name):
            var = t.id
    out: dict[int, set[str]] = {}
    if var is None:
        return out
    for n in own_nodes(fn.node):
        if isinstance(n, (ast.Assign, ast.AnnAssign)) and getattr(n, "value", None) is not None:
            t = n.targets[0] if isinstance(n, ast.Assign) else n.target
            if not isinstance(t, ast.Name):
                continue
            for x in ast.walk(n.value):
                if isinstance(x, ast.BinOp) and isinstance(x.left, ast.Name) and x.left.id == var and isinstance(x.right, ast.Constant) and isinstance(x.right.value, int):
                    if isinstance(x.op, ast.RShift):
                        out.setdefault(x.right.value, set()).add(t.id)
                    elif isinstance(x.op, ast.BitAnd) and x.right.value:
                        out.setdefault(_ctz(x.right.value), set()).add(t.id)
    return out
