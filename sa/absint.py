"""E1 - range prover: forward interval abstract interpretation with disjunctive (per-path) states,
condition refinement, context-sensitive inlining with by-reference refinement, contracts and obligations.

Nothing is executed.  Sound for what it proves (over-approximation); incompleteness shows as UNDECIDED.
"""
from __future__ import annotations

import ast
import math
from dataclasses import dataclass, field
from typing import Any, Callable, Iterable

from .kit import Exits, PathWalker, attr_key, own_nodes
from .model import UNKNOWN, Cls, Func, Model, mangle, unparse
from .resolve import Resolver

INF = math.inf


# ------------------------------------------------------------------------------------------- abstract values


class AV:
    pass


class Iv(AV):
    """Integer (numeric) interval; definitely not None."""

    __slots__ = ("lo", "hi", "prec")

    def __init__(self, lo: float, hi: float, prec: bool = True) -> None:
        self.lo, self.hi = lo, hi
        self.prec = prec  # False once an unknown (top) operand contributed

    def __repr__(self) -> str:
        return f"[{_fmt(self.lo)}, {_fmt(self.hi)}]"

    def __eq__(self, o: object) -> bool:
        return isinstance(o, Iv) and self.lo == o.lo and self.hi == o.hi

    def __hash__(self) -> int:
        return hash(("iv", self.lo, self.hi))

    @property
    def empty(self) -> bool:
        return self.lo > self.hi

    @property
    def const(self) -> bool:
        return self.lo == self.hi

    @property
    def bounded(self) -> bool:
        return self.lo != -INF and self.hi != INF

    def within(self, lo: float, hi: float) -> bool:
        return self.lo >= lo and self.hi <= hi


def _fmt(x: float) -> str:
    if x == INF:
        return "+inf"
    if x == -INF:
        return "-inf"
    return str(int(x)) if isinstance(x, int) or float(x).is_integer() and abs(x) < 2**53 else str(x)


class Top(AV):
    def __repr__(self) -> str:
        return "T"

    def __eq__(self, o: object) -> bool:
        return isinstance(o, Top)

    def __hash__(self) -> int:
        return 1


class NoneV(AV):
    def __repr__(self) -> str:
        return "None"

    def __eq__(self, o: object) -> bool:
        return isinstance(o, NoneV)

    def __hash__(self) -> int:
        return 2


class Obj(AV):
    """Instance of a repo class (not None); fields known so far."""

    __slots__ = ("tname", "fields")

    def __init__(self, tname: str, fields: dict[str, AV] | None = None) -> None:
        self.tname = tname
        self.fields = dict(fields or {})

    def __repr__(self) -> str:
        return f"{self.tname}{self.fields if self.fields else ''}"

    def __eq__(self, o: object) -> bool:
        return isinstance(o, Obj) and self.tname == o.tname and self.fields == o.fields

    def __hash__(self) -> int:
        return hash(("obj", self.tname, tuple(sorted((k, hash(v)) for k, v in self.fields.items()))))


class NN(AV):
    """A value that is certainly not None but otherwise unknown: a str / bytes / container / callable / class object.
    `func` carries the repo function for callables that could be resolved (bound methods, lambdas, nested defs)."""

    __slots__ = ("kind", "func", "env", "recv")

    def __init__(self, kind: str, func: Any = None, env: Any = None, recv: Any = None) -> None:
        self.kind = kind
        self.func = func
        self.env = env  # (State, owner Func) captured at closure creation
        self.recv = recv  # receiver of a bound method value

    def __repr__(self) -> str:
        return f"nn<{self.kind}>" if self.func is None else f"nn<{self.kind}:{self.func.qual}>"

    def __eq__(self, o: object) -> bool:
        return isinstance(o, NN) and self.kind == o.kind and self.func is o.func and self.env is o.env

    def __hash__(self) -> int:
        return hash(("nn", self.kind, id(self.func), id(self.env)))


class Tup(AV):
    __slots__ = ("items",)

    def __init__(self, items: Iterable[AV]) -> None:
        self.items = tuple(items)

    def __repr__(self) -> str:
        return "(" + ", ".join(map(repr, self.items)) + ")"

    def __eq__(self, o: object) -> bool:
        return isinstance(o, Tup) and self.items == o.items

    def __hash__(self) -> int:
        return hash(("tup", self.items))


class ConstV(AV):
    """Non-integer constant (str, float, bytes) carried for folding."""

    __slots__ = ("v",)

    def __init__(self, v: Any) -> None:
        self.v = v

    def __repr__(self) -> str:
        return f"const({self.v!r})"

    def __eq__(self, o: object) -> bool:
        return isinstance(o, ConstV) and type(self.v) is type(o.v) and self.v == o.v

    def __hash__(self) -> int:
        return hash(("c", repr(self.v)))


class AtomV(AV):
    """Opaque ordered atom of the order domain (E2): only comparisons between atoms (decided by the current ranks)
    and the sign of a difference of two atoms are meaningful; any other use escapes the fragment."""

    __slots__ = ("name",)

    def __init__(self, name: str) -> None:
        self.name = name

    def __repr__(self) -> str:
        return f"<{self.name}>"

    def __eq__(self, o: object) -> bool:
        return isinstance(o, AtomV) and self.name == o.name

    def __hash__(self) -> int:
        return hash(("atom", self.name))


class LinV(AV):
    """Integer given as a linear form  c + sum k_i * h_i  over non-negative unknowns h_i (positions on an abstract line).
    Sums/differences stay linear; a comparison is decided when the sign of the difference is the same for all h >= 0."""

    __slots__ = ("c", "k")

    def __init__(self, c: int, k: dict[str, int] | None = None) -> None:
        self.c = c
        self.k = {a: b for a, b in (k or {}).items() if b != 0}

    def __repr__(self) -> str:
        return "lin(" + str(self.c) + "".join(f"{'+' if v > 0 else '-'}{abs(v) if abs(v) != 1 else ''}{n}" for n, v in sorted(self.k.items())) + ")"

    def __eq__(self, o: object) -> bool:
        return isinstance(o, LinV) and self.c == o.c and self.k == o.k

    def __hash__(self) -> int:
        return hash(("lin", self.c, tuple(sorted(self.k.items()))))

    def add(self, o: "LinV", sign: int = 1) -> "LinV":
        k = dict(self.k)
        for n, v in o.k.items():
            k[n] = k.get(n, 0) + sign * v
        return LinV(self.c + sign * o.c, k)

    def sign_range(self) -> tuple[float, float]:
        """Range of values over all h >= 0."""
        lo = self.c if all(v >= 0 for v in self.k.values()) else -INF
        hi = self.c if all(v <= 0 for v in self.k.values()) else INF
        return lo, hi


def as_lin(v: AV) -> "LinV | None":
    if isinstance(v, LinV):
        return v
    if isinstance(v, Iv) and v.const and v.bounded:
        return LinV(int(v.lo))
    return None


class SymV(AV):
    """Symbolic definition of an integer variable (side information for quotient/remainder patterns)."""

    __slots__ = ("t",)

    def __init__(self, t: tuple) -> None:
        self.t = t

    def __repr__(self) -> str:
        return f"sym{self.t}"

    def __eq__(self, o: object) -> bool:
        return isinstance(o, SymV) and self.t == o.t

    def __hash__(self) -> int:
        return hash(("sym", self.t))


def term_mentions(t: Any, k: str) -> bool:
    if isinstance(t, tuple):
        if len(t) == 2 and t[0] == "v":
            return t[1] == k or t[1].startswith(k + ".")
        return any(term_mentions(x, k) for x in t[1:])
    return False


TOP = Top()
NONE = NoneV()
TOPINT = Iv(-INF, INF, False)
BOOL = Iv(0, 1)


def num(v: AV) -> Iv:
    if isinstance(v, Iv):
        return v
    if isinstance(v, ConstV) and isinstance(v.v, float):
        return Iv(v.v, v.v)
    return TOPINT


def join(a: AV, b: AV) -> AV:
    if a == b:
        return a
    if isinstance(a, Iv) and isinstance(b, Iv):
        return Iv(min(a.lo, b.lo), max(a.hi, b.hi), a.prec and b.prec)
    if isinstance(a, Obj) and isinstance(b, Obj) and a.tname == b.tname:
        f = {}
        for k in set(a.fields) & set(b.fields):
            f[k] = join(a.fields[k], b.fields[k])
        return Obj(a.tname, f)
    if isinstance(a, Tup) and isinstance(b, Tup) and len(a.items) == len(b.items):
        return Tup(join(x, y) for x, y in zip(a.items, b.items))
    if isinstance(a, NN) and isinstance(b, NN):
        return NN(a.kind if a.kind == b.kind else "object")
    if isinstance(a, NN) and isinstance(b, ConstV) and not isinstance(b.v, float) or isinstance(b, NN) and isinstance(a, ConstV) and not isinstance(a.v, float):
        return NN("str" if (a.kind if isinstance(a, NN) else b.kind) == "str" else "object")  # type: ignore[union-attr]
    return TOP


def _mul(x: float, y: float) -> float:
    if x == 0 or y == 0:
        return 0
    return x * y


def iv_add(a: Iv, b: Iv) -> Iv:
    return Iv(a.lo + b.lo, a.hi + b.hi, a.prec and b.prec)


def iv_sub(a: Iv, b: Iv) -> Iv:
    return Iv(a.lo - b.hi, a.hi - b.lo, a.prec and b.prec)


def iv_mul(a: Iv, b: Iv) -> Iv:
    c = [_mul(a.lo, b.lo), _mul(a.lo, b.hi), _mul(a.hi, b.lo), _mul(a.hi, b.hi)]
    return Iv(min(c), max(c), a.prec and b.prec)


def iv_neg(a: Iv) -> Iv:
    return Iv(-a.hi, -a.lo, a.prec)


def _fd(x: float, k: float) -> float:
    if x in (INF, -INF):
        return x if k > 0 else -x
    return x // k


def iv_floordiv(a: Iv, b: Iv) -> Iv:
    if b.const and b.lo > 0:
        return Iv(_fd(a.lo, b.lo), _fd(a.hi, b.lo), a.prec and b.prec)
    if b.lo > 0 and b.bounded:
        c = [_fd(a.lo, b.lo), _fd(a.lo, b.hi), _fd(a.hi, b.lo), _fd(a.hi, b.hi)]
        return Iv(min(c), max(c), a.prec and b.prec)
    return Iv(-INF, INF, False)


def iv_mod(a: Iv, b: Iv) -> Iv:
    """Python %: sign follows the divisor."""
    if a.const and b.const and a.bounded and b.bounded and b.lo != 0:
        r = int(a.lo) % int(b.lo)  # both operands exact: the exact Python remainder (any signs)
        return Iv(r, r, a.prec and b.prec)
    if b.hi < 0 and b.bounded:
        return Iv(b.lo + 1, 0, a.prec and b.prec)  # negative divisor: remainder in (divisor, 0]
    if b.lo > 0:
        m = b.hi
        if b.const and a.bounded and a.lo >= 0 and a.hi - a.lo < m and (a.lo % m) <= (a.hi % m):
            return Iv(a.lo % m, a.hi % m, a.prec and b.prec)
        hi = m - 1
        if a.lo >= 0:
            hi = min(hi, a.hi)
        return Iv(0, hi, a.prec and b.prec)
    return Iv(-INF, INF, False)


def _tz(x: float, k: float) -> float:
    if x in (INF, -INF):
        return x
    q = abs(x) // k
    return q if x >= 0 else -q


def iv_tzdiv(a: Iv, b: Iv) -> Iv:
    """Truncating division (towards zero)."""
    if b.lo > 0 and b.bounded:
        c = [_tz(a.lo, b.lo), _tz(a.lo, b.hi), _tz(a.hi, b.lo), _tz(a.hi, b.hi)]
        lo, hi = min(c), max(c)
        if a.lo <= 0 <= a.hi:
            lo, hi = min(lo, 0), max(hi, 0)
        return Iv(lo, hi, a.prec and b.prec)
    return Iv(-INF, INF, False)


def iv_cmod(a: Iv, b: Iv) -> Iv:
    """C# remainder: sign follows the dividend, |r| < |m|."""
    if b.lo > 0 and b.bounded:
        m = b.hi
        p = a.prec and b.prec
        if a.lo >= 0:
            if b.const and a.bounded and a.hi - a.lo < m and (a.lo % m) <= (a.hi % m):
                return Iv(a.lo % m, a.hi % m, p)
            return Iv(0, min(a.hi, m - 1), p)
        if a.hi <= 0:
            if b.const and a.bounded and a.hi - a.lo < m and ((-a.hi) % m) <= ((-a.lo) % m):
                return Iv(-((-a.lo) % m), -((-a.hi) % m), p)  # exact on a short negative range: -(|a| mod m)
            return Iv(max(a.lo, -(m - 1)), 0, p)
        return Iv(max(a.lo, -(m - 1)), min(a.hi, m - 1), p)
    return Iv(-INF, INF, False)


def iv_shift_r(a: Iv, b: Iv) -> Iv:
    if b.const and b.lo >= 0 and b.lo < 4096:
        k = 2 ** int(b.lo)
        return Iv(_fd(a.lo, k), _fd(a.hi, k), a.prec and b.prec)
    return Iv(-INF, INF, False)


def iv_shift_l(a: Iv, b: Iv) -> Iv:
    if b.const and 0 <= b.lo < 4096:
        k = 2 ** int(b.lo)
        return iv_mul(a, Iv(k, k))
    return Iv(-INF, INF, False)


def iv_and(a: Iv, b: Iv) -> Iv:
    if a.const and b.const and a.bounded and b.bounded and float(a.lo).is_integer() and float(b.lo).is_integer():
        v = int(a.lo) & int(b.lo)
        return Iv(v, v, a.prec and b.prec)
    return _iv_and(a, b)


def _iv_and(a: Iv, b: Iv) -> Iv:
    if b.const and b.lo >= 0:
        return Iv(0, b.lo if a.lo < 0 or a.hi > b.lo else a.hi, a.prec and b.prec) if not (a.lo >= 0 and a.hi <= b.lo and _is_mask(b.lo)) else a
    if a.const and a.lo >= 0:
        return iv_and(b, a)
    if a.lo >= 0 and b.lo >= 0:
        return Iv(0, min(a.hi, b.hi), a.prec and b.prec)
    return Iv(-INF, INF, False)


def _is_mask(x: float) -> bool:
    x = int(x)
    return x & (x + 1) == 0


def iv_or(a: Iv, b: Iv) -> Iv:
    if a.const and b.const and a.bounded and b.bounded and float(a.lo).is_integer() and float(b.lo).is_integer():
        v = int(a.lo) | int(b.lo)
        return Iv(v, v, a.prec and b.prec)
    return _iv_or(a, b)


def _iv_or(a: Iv, b: Iv) -> Iv:
    if a.lo >= 0 and b.lo >= 0 and a.bounded and b.bounded:
        n = max(int(a.hi), int(b.hi)).bit_length()
        return Iv(max(a.lo, b.lo), (1 << n) - 1, a.prec and b.prec)
    return Iv(-INF, INF, False)


# ------------------------------------------------------------------------------------------- state


class State:
    __slots__ = ("d", "_h")

    def __init__(self, d: dict[str, AV] | None = None) -> None:
        self.d = d if d is not None else {}
        self._h: int | None = None

    def get(self, k: str) -> AV | None:
        return self.d.get(k)

    def set(self, k: str, v: AV, term: tuple | None = None) -> "State":
        d = dict(self.d)
        d[k] = v
        # a store to x invalidates facts about x.<anything> and symbolic definitions mentioning x
        pref = k + "."
        for kk in [kk for kk in d if kk.startswith(pref) or kk == "\u00a7" + k or kk.startswith("\u00a7" + pref)]:
            del d[kk]
        for kk in [kk for kk, vv in d.items() if isinstance(vv, SymV) and term_mentions(vv.t, k)]:
            del d[kk]
        for kk in [kk for kk in d if kk.startswith("\u00a7rel:") and k in kk[5:].split("|")]:
            del d[kk]
        if term is not None and not term_mentions(term, k):
            d["\u00a7" + k] = SymV(term)
        return State(d)

    def sym(self, k: str) -> tuple | None:
        v = self.d.get("\u00a7" + k)
        return v.t if isinstance(v, SymV) else None

    def refine(self, k: str, v: AV) -> "State":
        d = dict(self.d)
        d[k] = v
        return State(d)

    def __hash__(self) -> int:
        if self._h is None:
            self._h = hash(tuple(sorted((k, hash(v)) for k, v in self.d.items())))
        return self._h

    def __eq__(self, o: object) -> bool:
        return isinstance(o, State) and self.d == o.d

    def __repr__(self) -> str:
        return "{" + ", ".join(f"{k}={v}" for k, v in sorted(self.d.items())) + "}"


def join_states(sts: list[State]) -> State:
    keys = set(sts[0].d)
    for s in sts[1:]:
        keys &= set(s.d)
    out = {}
    for k in keys:
        v = sts[0].d[k]
        for s in sts[1:]:
            v = join(v, s.d[k])
        if isinstance(sts[0].d[k], SymV) and not isinstance(v, SymV):
            continue
        out[k] = v
    return State(out)


# ------------------------------------------------------------------------------------------- contracts / obligations


@dataclass
class Contracts:
    """Reviewed tables (see sa/contracts.py).  Bounds are (lo, hi) python ints or folded at load time."""

    field_inv: dict[tuple[str, str], tuple[float, float]] = field(default_factory=dict)  # (Class, mangled field or property) -> bounds
    pre: dict[tuple[str, str], tuple[float, float]] = field(default_factory=dict)  # (func qual, param) -> bounds
    ret: dict[str, tuple[float, float]] = field(default_factory=dict)  # func qual -> bounds of returned int
    opaque: set[str] = field(default_factory=set)  # func quals never inlined
    context: set[str] = field(default_factory=set)  # multiplexed private constructors: obligations inside them are decided per calling context


@dataclass
class Obligation:
    entry: str  # entry function (+instance label)
    kind: str  # 'pre' | 'field'
    target: str  # callee qual.param  or Class.field
    bounds: tuple[float, float]
    value: AV
    loc: str
    status: str  # PROVED | REFUTED | UNDECIDED
    expr: str = ""

    @property
    def key(self) -> str:
        return f"{self.entry}=>{self.target}"


class Budget(Exception):
    pass


# ------------------------------------------------------------------------------------------- interpreter


class Interp:
    def __init__(self, M: Model, R: Resolver, contracts: Contracts, budget: int = 64, depth: int = 4, max_nodes: int = 400) -> None:
        self.M, self.R, self.C = M, R, contracts
        self.budget = budget
        self.max_depth = depth
        self.max_nodes = max_nodes
        self.obligations: list[Obligation] = []
        self.entry_label = ""
        self.steps = 0
        self._inline_stack: list[int] = []
        self._inline_names: list[str] = []
        self._in_trial = False
        self.raise_paths: dict[tuple[str, str], tuple[str, ...]] = {}
        self.on_call: Callable[[ast.Call, Func, dict[str, AV], State, Func], None] | None = None
        self.on_store: Callable[[ast.Attribute, ast.stmt, AV, State, Func], None] | None = None
        self.on_return: Callable[[ast.Return, AV, State, Func], None] | None = None
        self.hooks_all_depths = False
        self.follow_callables = False  # inline calls through closure / function values (pattern-builder abstract execution)
        self.on_callable: Callable[..., None] | None = None
        self.on_fstring: Callable[..., None] | None = None  # (FormattedValue node, operand value, state, fn)
        self.on_field_write: Callable[..., None] | None = None  # (base value, mangled attr, stored value, state, fn, node) at every depth
        self.track_pc = False  # record the branch decisions of the entry function in state key "\u00a7pc"
        self.track_eq = False  # remember `term == const` facts and reuse them for syntactically equal terms
        self.ranks: dict[str, int] = {}  # order-domain ranks of atoms
        self.escaped: list[str] = []  # uses of atoms outside the order fragment
        self.stubs: dict[str, Callable[[list[AV], dict[str, AV], AV | None], AV]] = {}  # qualname -> abstract summary
        self.raise_log: list[tuple[str, str]] = []
        self.opaque_log: list[tuple[str, str]] = []
        self.on_binop: Callable[[ast.BinOp, AV, AV, State, Func], None] | None = None
        self.on_builtin: Callable[[ast.Call, list[AV], State, Func], None] | None = None

    # ---------------------------------------------------------------- helpers
    def key_of(self, e: ast.AST, fn: Func) -> str | None:
        return attr_key(e, self.M.mangling_class(e) or (fn.cls.name if fn.cls else None))

    def bounds_iv(self, b: tuple[float, float]) -> Iv:
        return Iv(b[0], b[1])

    def type_of_value(self, v: AV, e: ast.expr, fn: Func) -> Any:
        if isinstance(v, Obj):
            return v.tname
        t = self.R.type_of(e, self.R.scope(fn))
        return t

    # ---------------------------------------------------------------- expression evaluation
    def ev(self, e: ast.expr | None, st: State, fn: Func, depth: int) -> AV:
        self.steps += 1
        M = self.M
        if e is None:
            return NONE
        if isinstance(e, ast.Constant):
            v = e.value
            if isinstance(v, bool):
                return Iv(int(v), int(v))
            if isinstance(v, int):
                return Iv(v, v)
            if v is None:
                return NONE
            return ConstV(v)
        if isinstance(e, ast.Name):
            v = st.get(e.id)
            if v is not None:
                if isinstance(v, Obj):
                    return self._materialize(e.id, v, st)
                return v
            if e.id in ("True", "False"):
                return Iv(int(e.id == "True"), int(e.id == "True"))
            owner: Func | None = fn
            while owner is not None:
                if e.id in owner.nested:
                    return NN("callable", owner.nested[e.id], (st, fn) if owner is fn else None)
                owner = owner.parent
            if fn.name == "<classbody>" and fn.cls is not None:
                cm = fn.cls.methods.get(mangle(fn.cls.name, e.id)) or fn.cls.methods.get(e.id)
                if cm is not None:
                    return NN("callable", cm)
            if e.id == "NotImplemented":
                return ConstV("NotImplemented")
            c = M.fold(e, fn.cls, fn.mod)
            if c is not UNKNOWN:
                return self._const(c)
            t = self.R.type_of(e, self.R.scope(fn))
            return self._default_for_type(t)
        if isinstance(e, ast.Attribute):
            return self._attr(e, st, fn, depth)
        if isinstance(e, ast.UnaryOp):
            v = self.ev(e.operand, st, fn, depth)
            if isinstance(e.op, ast.USub):
                if isinstance(v, LinV):
                    return LinV(0).add(v, -1)
                if isinstance(v, Iv):
                    return iv_neg(v)
                return self._dunder_un(e, v, st, fn, depth)
            if isinstance(e.op, ast.UAdd):
                return v
            if isinstance(e.op, ast.Not):
                if isinstance(v, Iv) and v.const:
                    return Iv(int(v.lo == 0), int(v.lo == 0))
                return BOOL
            if isinstance(e.op, ast.Invert) and isinstance(v, Iv):
                return Iv(-v.hi - 1, -v.lo - 1, v.prec)
            return TOPINT
        if isinstance(e, ast.BinOp):
            a = self.ev(e.left, st, fn, depth)
            b = self.ev(e.right, st, fn, depth)
            return self._with_eq_fact(e, self._binop(e, a, b, st, fn, depth), st, fn)
        if isinstance(e, ast.IfExp):
            outs: list[AV] = []
            for s2 in self.assume(e.test, st, fn, True, depth):
                outs.append(self.ev(e.body, s2, fn, depth))
            for s2 in self.assume(e.test, st, fn, False, depth):
                outs.append(self.ev(e.orelse, s2, fn, depth))
            if not outs:
                return TOP
            r = outs[0]
            for o in outs[1:]:
                r = join(r, o)
            return r
        if isinstance(e, ast.Compare):
            t = self.assume(e, st, fn, True, depth)
            f = self.assume(e, st, fn, False, depth)
            if not t and f:
                return Iv(0, 0)
            if t and not f:
                return Iv(1, 1)
            return BOOL
        if isinstance(e, ast.BoolOp):
            t = self.assume(e, st, fn, True, depth)
            f = self.assume(e, st, fn, False, depth)
            if not t and f:
                return Iv(0, 0)
            if t and not f:
                return Iv(1, 1)
            return BOOL
        if isinstance(e, ast.Tuple):
            return Tup(self.ev(x, st, fn, depth) for x in e.elts)
        if isinstance(e, ast.Call):
            outs2 = self.call(e, st, fn, depth)
            if not outs2:
                return TOP
            r = outs2[0][0]
            for o, _ in outs2[1:]:
                r = join(r, o)
            return self._with_eq_fact(e, r, st, fn)
        if isinstance(e, ast.NamedExpr):
            return self.ev(e.value, st, fn, depth)
        if isinstance(e, ast.Subscript):
            base = self.ev(e.value, st, fn, depth)
            if isinstance(base, Tup):
                i = M.fold(e.slice)
                if isinstance(i, int) and -len(base.items) <= i < len(base.items):
                    return base.items[i]
            c = M.fold(e, fn.cls, fn.mod)
            if c is not UNKNOWN:
                return self._const(c)
            # element of a folded constant table: join of all elements
            tbl = M.fold(e.value, fn.cls, fn.mod)
            if isinstance(tbl, (list, tuple, bytes, dict)) and not isinstance(e.slice, ast.Slice):
                iv_ = self.ev(e.slice, st, fn, depth)
                if isinstance(iv_, Iv) and iv_.const and iv_.bounded:
                    try:
                        return self._const(tbl[int(iv_.lo)])
                    except (IndexError, KeyError):
                        self.raise_log.append((fn.qual, f"index {int(iv_.lo)} outside folded table {unparse(e.value)[:40]}"))
                        return TOP
                if isinstance(iv_, Iv) and iv_.bounded and not isinstance(tbl, dict) and 0 <= iv_.lo and iv_.hi < len(tbl) and all(isinstance(x, int) for x in tbl):
                    part = tbl[int(iv_.lo): int(iv_.hi) + 1]
                    return Iv(min(part), max(part))
            if isinstance(tbl, dict):
                tbl = list(tbl.values())
            if isinstance(tbl, (list, tuple, bytes)) and tbl and all(isinstance(x, int) for x in tbl):
                return Iv(min(tbl), max(tbl))
            t = self.R.type_of(e, self.R.scope(fn))
            return self._default_for_type(t)
        if isinstance(e, ast.JoinedStr):
            for part in e.values:
                if isinstance(part, ast.FormattedValue):
                    pv = self.ev(part.value, st, fn, depth)  # evaluated for its effects on the hooks (arithmetic inside f-strings)
                    if self.on_fstring is not None:
                        self.on_fstring(part, pv, st, fn)
                    if isinstance(part.format_spec, ast.JoinedStr):
                        for sp in part.format_spec.values:
                            if isinstance(sp, ast.FormattedValue):
                                self.ev(sp.value, st, fn, depth)
            return ConstV("<str>")
        if isinstance(e, ast.Lambda):
            lf = M.func_of_node.get(id(e))
            if lf is not None:
                return NN("callable", lf, (st, fn))
        t = self.R.type_of(e, self.R.scope(fn))
        return self._default_for_type(t)

    def _with_eq_fact(self, e: ast.expr, v: AV, st: State, fn: Func) -> AV:
        if not self.track_eq or not isinstance(v, Iv):
            return v
        t = self.term(e, st, fn)
        if t is None:
            return v
        f = st.get("\u00a7eq:" + repr(t))
        if isinstance(f, Iv) and v.lo <= f.lo <= v.hi:
            return f
        return v

    def _const(self, c: Any) -> AV:
        if isinstance(c, bool):
            return Iv(int(c), int(c))
        if isinstance(c, int):
            return Iv(c, c)
        if c is None:
            return NONE
        if isinstance(c, tuple):
            return Tup(self._const(x) for x in c)
        return ConstV(c)

    def _default_for_type(self, t: Any) -> AV:
        if t == "int":
            return TOPINT
        if t == "bool":
            return BOOL
        if t == "float":
            return TOPINT
        if t == "None":
            return NONE
        if t in ("str", "bytes", "bytearray"):
            return NN(t)
        if isinstance(t, tuple) and t and t[0] in ("func", "bound") and len(t) > 1 and isinstance(t[1], Func):
            return NN("callable", t[1])
        if isinstance(t, tuple) and t and t[0] in ("list", "dict", "set", "callable"):
            return NN(t[0])
        if isinstance(t, tuple) and t and t[0] == "type":
            return NN("type")
        if isinstance(t, str) and self.M.cls(t, required=False) is not None:
            c = self.M.cls(t, required=False)
            if c is not None and (self.M.is_subclass(c, "IntEnum") or self.M.is_subclass(c, "IntFlag")):
                vals = [self.M.fold(v, c, c.mod) for v in c.assigns.values()]
                ints = [v for v in vals if isinstance(v, int) and not isinstance(v, bool)]
                if ints:
                    return Iv(min(ints), max(ints))
            return Obj(t)
        if isinstance(t, tuple) and t[0] == "tuple":
            return Tup(self._default_for_type(x) for x in t[1])
        return TOP

    def _materialize(self, name: str, v: Obj, st: State) -> Obj:
        pref = name + "."
        extra = {k[len(pref):]: val for k, val in st.d.items() if k.startswith(pref) and "." not in k[len(pref):]}
        if not extra:
            return v
        f = dict(v.fields)
        f.update(extra)
        return Obj(v.tname, f)

    def _attr(self, e: ast.Attribute, st: State, fn: Func, depth: int) -> AV:
        M = self.M
        k = self.key_of(e, fn)
        if k is not None:
            v = st.get(k)
            if v is not None:
                return v
        # constants: Class.CONST, cls.CONST, module constants
        if not (isinstance(e.value, ast.Name) and e.value.id == "self"):
            c = M.fold(e, fn.cls, fn.mod)
            if c is not UNKNOWN:
                return self._const(c)
        elif fn.cls is not None and self._is_class_constant(fn.cls, mangle(M.mangling_class(e) or fn.cls.name, e.attr)):
            c = M.fold(e, fn.cls, fn.mod)
            if c is not UNKNOWN and not isinstance(c, (list, dict)):
                return self._const(c)
        base = self.ev(e.value, st, fn, depth)
        mcls = M.mangling_class(e) or (fn.cls.name if fn.cls else None)
        mattr = mangle(mcls, e.attr) if e.attr.startswith("__") and not e.attr.endswith("__") else e.attr
        tname: Any = None
        if isinstance(base, Obj):
            if mattr in base.fields:
                return base.fields[mattr]
            tname = base.tname
        else:
            t = self.R.type_of(e.value, self.R.scope(fn))
            if isinstance(t, str):
                tname = t
            elif isinstance(t, tuple) and t[0] == "type":
                # metaclass property / class attr on the class object
                c = M.cls(t[1], required=False)
                if c is not None:
                    mf = M.find_meta_method(c, mattr) if M.find_method(c, mattr) is None else None
                    if mf is not None and mf.kind == "property":
                        return self._inline_value(mf, [], {}, st, fn, depth, None, e)
                return self._default_for_type(self.R.type_of(e, self.R.scope(fn)))
        if isinstance(base, (Iv,)) and e.attr == "value":
            return base
        if tname is not None:
            c = M.cls(tname, required=False)
            if c is not None:
                for kcls in M.mro(c):
                    b = self.C.field_inv.get((kcls.name, mattr))
                    if b is not None:
                        return self.bounds_iv(b)
                f = M.find_method(c, mattr)
                if f is not None and f.kind == "property":
                    recv = base if isinstance(base, Obj) else Obj(c.name)
                    return self._inline_value(f, [], {}, st, fn, depth, recv, e)
                if M.is_subclass(c, "IntEnum") and e.attr == "value":
                    return self._default_for_type(tname)
                if isinstance(base, Obj):
                    ann = M.find_annot(c, mattr)
                    if ann is not None:
                        at = M.ann_type(ann, c.mod)
                        if at is not None and not (isinstance(at, tuple) and at[0] == "union") and "None" not in unparse(ann):
                            return self._default_for_type(at)
        return self._default_for_type(self.R.type_of(e, self.R.scope(fn)))

    def _binop(self, e: ast.BinOp, a: AV, b: AV, st: State, fn: Func, depth: int) -> AV:
        op = e.op
        if self.on_binop is not None and (depth == 0 or self.hooks_all_depths):
            self.on_binop(e, a, b, st, fn)
        if isinstance(a, LinV) or isinstance(b, LinV):
            la, lb = as_lin(a), as_lin(b)
            if la is not None and lb is not None and isinstance(op, (ast.Add, ast.Sub)):
                return la.add(lb, 1 if isinstance(op, ast.Add) else -1)
            self.escaped.append(f"non-linear use of a line position: {unparse(e)[:80]}")
            return TOPINT
        if isinstance(a, AtomV) or isinstance(b, AtomV):
            if isinstance(a, AtomV) and isinstance(b, AtomV) and isinstance(op, ast.Sub) and a.name in self.ranks and b.name in self.ranks:
                ra, rb = self.ranks[a.name], self.ranks[b.name]
                return Iv(-INF, -1) if ra < rb else (Iv(0, 0) if ra == rb else Iv(1, INF))
            self.escaped.append(f"arithmetic on ordered atom: {unparse(e)[:80]}")
            return TOPINT
        if isinstance(a, ConstV) and isinstance(b, ConstV) and isinstance(a.v, (int, float)) and isinstance(b.v, (int, float)):
            a, b = num(a), num(b)
        if isinstance(a, Obj) or isinstance(b, Obj):
            return self._dunder_bin(e, a, b, st, fn, depth)
        if isinstance(a, (ConstV,)) and isinstance(a.v, (str, bytes)):
            return ConstV("<str>")
        if isinstance(a, (Top, NoneV)) or isinstance(b, (Top, NoneV)):
            # maybe an object-typed operand: consult types
            lt = self.R.type_of(e.left, self.R.scope(fn))
            if isinstance(lt, str) and self.M.cls(lt, required=False) is not None:
                return self._dunder_bin(e, Obj(lt), b, st, fn, depth)
        x, y = num(a), num(b)
        if isinstance(op, ast.Add):
            rel = self._rel_linear(e, st, fn)
            plain = iv_add(x, y)
            if rel is not None:
                return Iv(max(rel.lo, plain.lo), min(rel.hi, plain.hi), rel.prec)
            return plain
        if isinstance(op, ast.Sub):
            rel = self._rel_linear(e, st, fn)
            plain = iv_sub(x, y)
            if isinstance(e.left, (ast.Name, ast.Attribute)) and isinstance(e.right, (ast.Name, ast.Attribute)):
                ka, kb = self.key_of(e.left, fn), self.key_of(e.right, fn)
                f1 = st.get("\u00a7rel:" + str(ka) + "|" + str(kb))
                f2 = st.get("\u00a7rel:" + str(kb) + "|" + str(ka))
                if isinstance(f1, Iv):
                    plain = Iv(max(plain.lo, f1.lo), min(plain.hi, f1.hi), plain.prec)
                if isinstance(f2, Iv):
                    plain = Iv(max(plain.lo, -f2.hi), min(plain.hi, -f2.lo), plain.prec)
            if rel is not None:
                return Iv(max(rel.lo, plain.lo), min(rel.hi, plain.hi), rel.prec)
            return plain
        if isinstance(op, ast.Mult):
            return iv_mul(x, y)
        if isinstance(op, ast.FloorDiv):
            return iv_floordiv(x, y)
        if isinstance(op, ast.Mod):
            return iv_mod(x, y)
        if isinstance(op, ast.RShift):
            return iv_shift_r(x, y)
        if isinstance(op, ast.LShift):
            return iv_shift_l(x, y)
        if isinstance(op, ast.BitAnd):
            return iv_and(x, y)
        if isinstance(op, ast.BitOr):
            return iv_or(x, y)
        if isinstance(op, ast.BitXor) and x.const and y.const and x.bounded and y.bounded:
            v_ = int(x.lo) ^ int(y.lo)
            return Iv(v_, v_, x.prec and y.prec)
        if isinstance(op, ast.Div):
            if x.const and y.const and y.lo != 0 and x.bounded and y.bounded:
                try:
                    return ConstV(x.lo / y.lo)
                except (OverflowError, ZeroDivisionError):
                    return TOPINT
            if y.lo > 0 and y.bounded:
                c = [x.lo / y.lo if x.lo not in (INF, -INF) else x.lo, x.hi / y.lo if x.hi not in (INF, -INF) else x.hi,
                     x.lo / y.hi if x.lo not in (INF, -INF) else x.lo, x.hi / y.hi if x.hi not in (INF, -INF) else x.hi]
                return Iv(min(c), max(c), x.prec and y.prec)
            return TOPINT
        if isinstance(op, ast.Pow) and x.const and y.const and 0 <= y.lo < 200 and x.bounded:
            return Iv(x.lo ** y.lo, x.lo ** y.lo)
        return TOPINT

    # ---------------------------------------------------------------- symbolic side information (quotient/remainder patterns)
    def term(self, e: ast.expr | None, st: State, fn: Func) -> tuple | None:
        if e is None:
            return None
        if isinstance(e, ast.Constant) and isinstance(e.value, int) and not isinstance(e.value, bool):
            return ("c", e.value)
        if isinstance(e, (ast.Name, ast.Attribute)):
            k = self.key_of(e, fn)
            if k is None:
                return None
            v = st.get(k)
            if isinstance(v, Iv) and v.const and v.bounded and float(v.lo).is_integer():
                return ("c", int(v.lo))
            t = st.sym(k)
            if t is not None:
                return t
            if v is None and not (isinstance(e, ast.Attribute) and isinstance(e.value, ast.Name) and e.value.id == "self"):
                c = self.M.fold(e, fn.cls, fn.mod)
                if isinstance(c, int) and not isinstance(c, bool):
                    return ("c", c)
            return ("v", k)
        if isinstance(e, ast.BinOp):
            a, b = self.term(e.left, st, fn), self.term(e.right, st, fn)
            if a is None or b is None:
                return None
            op = {ast.Add: "+", ast.Sub: "-", ast.Mult: "*", ast.FloorDiv: "//", ast.Mod: "%", ast.BitOr: "|", ast.BitAnd: "&"}.get(type(e.op))
            if isinstance(e.op, ast.RShift) and b[0] == "c" and 0 <= b[1] < 4096:
                op, b = "//", ("c", 2 ** b[1])
            if isinstance(e.op, ast.LShift) and b[0] == "c" and 0 <= b[1] < 4096:
                op, b = "*", ("c", 2 ** b[1])
            if op is None:
                return None
            if op == "//" and b[0] == "c" and b[1] > 0 and a[0] == "//" and a[2][0] == "c" and a[2][1] > 0:
                return ("//", a[1], ("c", a[2][1] * b[1]))  # floor(floor(x/c1)/c2) == floor(x/(c1*c2)) for positive constants
            if a[0] == "c" and b[0] == "c":
                if not (isinstance(a[1], int) and isinstance(b[1], int)):
                    return None
                try:
                    x_, y_ = a[1], b[1]
                    return ("c", x_ + y_ if op == "+" else x_ - y_ if op == "-" else x_ * y_ if op == "*" else x_ // y_ if op == "//" else x_ % y_ if op == "%" else (x_ | y_) if op == "|" else (x_ & y_))
                except ZeroDivisionError:
                    return None
            return (op, a, b)
        if isinstance(e, ast.Call):
            short = unparse(e.func).split(".")[-1]
            if short in ("_towards_zero_division", "_csharp_modulo") and len(e.args) == 2:
                a, b = self.term(e.args[0], st, fn), self.term(e.args[1], st, fn)
                if a is None or b is None:
                    return None
                return ("tzd" if short == "_towards_zero_division" else "cmod", a, b)
            if short == "int" and len(e.args) == 1:
                return self.term(e.args[0], st, fn)
        if isinstance(e, ast.NamedExpr):
            return self.term(e.value, st, fn)
        return None

    def term_iv(self, t: tuple | None, st: State) -> Iv:
        if t is None:
            return TOPINT
        if t[0] == "c":
            return Iv(t[1], t[1])
        if t[0] == "v":
            v = st.get(t[1])
            return v if isinstance(v, Iv) else TOPINT
        a, b = self.term_iv(t[1], st), self.term_iv(t[2], st)
        return {"+": iv_add, "-": iv_sub, "*": iv_mul, "//": iv_floordiv, "%": iv_mod, "tzd": iv_tzdiv, "cmod": iv_cmod, "|": iv_or, "&": iv_and}[t[0]](a, b)

    def _quotient_kind(self, d: tuple, a: tuple, k: tuple, st: State) -> str | None:
        """Is term d the quotient of a by k?  'floor' | 'trunc' | None."""
        if d[0] == "//" and d[1] == a and d[2] == k:
            return "floor"
        if d[0] == "tzd" and d[1] == a and d[2] == k:
            ia = self.term_iv(a, st)
            return "floor" if ia.lo >= 0 else "trunc"
        # floor for negatives written as  tzd(a + 1, k) - 1
        if d[0] == "-" and d[2] == ("c", 1) and d[1][0] == "tzd" and d[1][2] == k and d[1][1] in (("+", a, ("c", 1)), ("+", ("c", 1), a)):
            ia = self.term_iv(a, st)
            if ia.hi < 0:
                return "floor"
        return None

    @staticmethod
    def lin(t: tuple | None) -> tuple[int, dict[tuple, int]] | None:
        """Linear normal form  const + sum coeff*atom  of a term (atoms are the non-linear subterms)."""
        if t is None:
            return None
        if t[0] == "c":
            return (t[1], {})
        if t[0] in ("+", "-"):
            a, b = Interp.lin(t[1]), Interp.lin(t[2])
            if a is None or b is None:
                return None
            sg = 1 if t[0] == "+" else -1
            d = dict(a[1])
            for k, v in b[1].items():
                d[k] = d.get(k, 0) + sg * v
                if d[k] == 0:
                    del d[k]
            return (a[0] + sg * b[0], d)
        if t[0] == "*":
            a, b = Interp.lin(t[1]), Interp.lin(t[2])
            if a is None or b is None:
                return None
            if not a[1]:
                return (a[0] * b[0], {k: v * a[0] for k, v in b[1].items() if v * a[0] != 0})
            if not b[1]:
                return (a[0] * b[0], {k: v * b[0] for k, v in a[1].items() if v * b[0] != 0})
            return (0, {t: 1})
        return (0, {t: 1})

    def _rel_linear(self, e: ast.BinOp, st: State, fn: Func) -> Iv | None:
        """E = a - K*q (in any linear arrangement) where q is the truncated/floored quotient of a by K  ==>  exact remainder bounds."""
        L = self.lin(self.term(e, st, fn))
        if L is None or not L[1]:
            return None
        c0, atoms = L
        for q, coef in atoms.items():
            if q[0] not in ("tzd", "//") or coef >= 0:
                continue
            kt = q[2]
            if kt[0] != "c" or kt[1] <= 0 or coef != -kt[1]:
                continue
            K = kt[1]
            rest = {k: v for k, v in atoms.items() if k != q}
            X = self.lin(q[1])
            if X is None:
                continue
            ix = self.term_iv(q[1], st)
            if (c0, rest) == X:
                # E = x - K*quot(x, K)
                if q[0] == "//" or ix.lo >= 0:
                    return iv_mod(ix, Iv(K, K))
                return iv_cmod(ix, Iv(K, K))
            if q[0] == "tzd" and (c0 - K + 1, rest) == X:
                # E = a - K*(tzd(a+1, K) - 1) with x = a + 1:  floor division of a negative a
                ia = Iv(ix.lo - 1, ix.hi - 1, ix.prec)
                if ia.hi < 0:
                    return iv_mod(ia, Iv(K, K))
        return None

    def _dunder_bin(self, e: ast.BinOp, a: AV, b: AV, st: State, fn: Func, depth: int) -> AV:
        from .resolve import DUNDER

        dn = DUNDER.get(type(e.op))
        if dn and isinstance(a, Obj):
            c = self.M.cls(a.tname, required=False)
            if c is not None:
                f = self.M.find_method(c, dn)
                if f is not None:
                    return self._inline_value(f, [b], {}, st, fn, depth, a, e, arg_exprs=[e.right])
        return self._default_for_type(self.R.type_of(e, self.R.scope(fn)))

    def _dunder_un(self, e: ast.UnaryOp, v: AV, st: State, fn: Func, depth: int) -> AV:
        t = v.tname if isinstance(v, Obj) else self.R.type_of(e.operand, self.R.scope(fn))
        if isinstance(t, str):
            c = self.M.cls(t, required=False)
            if c is not None:
                f = self.M.find_method(c, "__neg__")
                if f is not None:
                    return self._inline_value(f, [], {}, st, fn, depth, v if isinstance(v, Obj) else Obj(t), e)
        return TOPINT

    def _inline_value(self, f: Func, args: list[AV], kws: dict[str, AV], st: State, fn: Func, depth: int, recv: AV | None, node: ast.AST, arg_exprs: list[ast.expr] | None = None) -> AV:
        if f.qual in self.stubs:
            return self.stubs[f.qual](args, kws, recv)
        outs = self.inline(f, args, kws, st, fn, depth, recv, node, arg_exprs or [], {})
        if outs is None:
            rb = self.C.ret.get(f.qual)
            if rb is not None:
                return self.bounds_iv(rb)
            return self._default_for_type(self.R.ret_type(f))
        if not outs:
            return TOP
        r = outs[0][0]
        for o, _ in outs[1:]:
            r = join(r, o)
        return r

    # ---------------------------------------------------------------- calls
    def call(self, c: ast.Call, st: State, fn: Func, depth: int) -> list[tuple[AV, State]]:
        """Evaluate a call: list of (returned value, caller state after by-reference refinement)."""
        M = self.M
        fx = c.func
        fname = unparse(fx)
        short = fname.split(".")[-1]
        args = [self.ev(a, st, fn, depth) for a in c.args if not isinstance(a, ast.Starred)]
        kws = {k.arg: self.ev(k.value, st, fn, depth) for k in c.keywords if k.arg}
        if fname in ("functools.partial", "partial"):
            return [(NN("callable"), st)]
        # modelled helpers
        if short == "_towards_zero_division" and len(args) == 2:
            return [(iv_tzdiv(num(args[0]), num(args[1])), st)]
        if short == "_csharp_modulo" and len(args) == 2:
            return [(iv_cmod(num(args[0]), num(args[1])), st)]
        if short in ("_int32_overflow", "_int64_overflow") and len(args) == 1:
            bits = 31 if "32" in short else 63
            if self.on_builtin is not None and isinstance(fx, ast.Name) and (depth == 0 or self.hooks_all_depths):
                self.on_builtin(c, args, st, fn)
            x = num(args[0])
            if x.within(-(2**bits), 2**bits - 1):
                return [(x, st)]
            return [(Iv(-(2**bits), 2**bits - 1, False), st)]
        if isinstance(fx, ast.Name) and fx.id not in st.d:
            n = fx.id
            if self.on_builtin is not None and (depth == 0 or self.hooks_all_depths):
                self.on_builtin(c, args, st, fn)
            if n == "int" and len(args) == 1:
                x = args[0]
                if isinstance(x, ConstV) and isinstance(x.v, float):
                    return [(Iv(int(x.v), int(x.v)), st)]
                xi = num(x)
                return [(Iv(_tz(xi.lo, 1) if xi.lo not in (INF, -INF) else xi.lo, _tz(xi.hi, 1) if xi.hi not in (INF, -INF) else xi.hi, xi.prec), st)]
            if n == "abs" and len(args) == 1:
                x = num(args[0])
                if x.lo >= 0:
                    return [(x, st)]
                if x.hi <= 0:
                    return [(iv_neg(x), st)]
                return [(Iv(0, max(-x.lo, x.hi), x.prec), st)]
            if n in ("min", "max") and len(args) == 2 and all(isinstance(a, Obj) for a in args):
                # CPython: max(x, y) = y if y > x else x ; min(x, y) = y if y < x else x
                cop = ast.Gt() if n == "max" else ast.Lt()
                outs_mm: list[tuple[AV, State]] = []
                for s2 in self.cmp(c.args[1], cop, c.args[0], st, fn, True, depth):
                    outs_mm.append((args[1], s2))
                for s2 in self.cmp(c.args[1], cop, c.args[0], st, fn, False, depth):
                    outs_mm.append((args[0], s2))
                return outs_mm
            if n == "hash" and len(args) == 1 and isinstance(args[0], AtomV):
                return [(AtomV("hash(" + args[0].name + ")"), st)]
            if n in ("min", "max") and len(args) >= 2 and all(isinstance(a, Iv) for a in args):
                ivs = [num(a) for a in args]
                p = all(i.prec for i in ivs)
                if n == "min":
                    return [(Iv(min(i.lo for i in ivs), min(i.hi for i in ivs), p), st)]
                return [(Iv(max(i.lo for i in ivs), max(i.hi for i in ivs), p), st)]
            if n == "len" and len(args) == 1 and isinstance(args[0], Obj):
                lc = M.cls(args[0].tname, required=False)
                lf = M.find_method(lc, "__len__") if lc is not None else None
                if lf is not None:
                    outs_len = self.inline(lf, [], {}, st, fn, depth, args[0], c, [], {})
                    if outs_len:
                        return outs_len
            if n == "len":
                tbl = M.fold(c.args[0], fn.cls, fn.mod) if c.args else UNKNOWN
                if tbl is not UNKNOWN and hasattr(tbl, "__len__"):
                    return [(Iv(len(tbl), len(tbl)), st)]
                return [(Iv(0, INF, False), st)]
            if n == "divmod" and len(args) == 2:
                x, y = num(args[0]), num(args[1])
                return [(Tup([iv_floordiv(x, y), iv_mod(x, y)]), st)]
            if n == "isinstance":
                return [(BOOL, st)]
            if n == "setattr" and len(args) == 3 and isinstance(args[1], ConstV) and isinstance(args[1].v, str):
                if self.on_field_write is not None:
                    self.on_field_write(args[0], args[1].v, args[2], st, fn, c)
                k0 = self.key_of(c.args[0], fn) if isinstance(c.args[0], (ast.Name, ast.Attribute)) else None
                return [(NONE, st.set(f"{k0}.{args[1].v}", args[2]) if k0 is not None else st)]
            if n == "cast" and len(args) == 2:
                return [(args[1], st)]
            if n == "bool":
                return [(BOOL, st)]
            if n == "float" and len(args) == 1:
                return [(num(args[0]), st)]
            if n in ("hash", "ord", "round", "sum"):
                return [(TOPINT, st)]
            if n == "range":
                return [(TOP, st)]
            if n == "super":
                return [(TOP, st)]
        # call through a callable value (closure, lambda, function passed as an argument)
        if self.follow_callables and isinstance(fx, (ast.Name, ast.Attribute)):
            cv = self.ev(fx, st, fn, depth) if isinstance(fx, ast.Name) or isinstance(fx, ast.Attribute) and self.key_of(fx, fn) is not None and st.get(self.key_of(fx, fn) or "") is not None else None
            if isinstance(cv, NN) and cv.kind == "callable" and cv.func is not None and (isinstance(fx, ast.Name) and st.get(fx.id) is not None or cv.env is not None or isinstance(fx, ast.Attribute) or fn.name == "<classbody>"):
                if self.on_callable is not None:
                    self.on_callable(c, cv, args, kws, st, fn, depth)
                outs_cv = self.inline(cv.func, args, kws, st, fn, depth, cv.recv, c, [a for a in c.args if not isinstance(a, ast.Starred)], {k.arg: k.value for k in c.keywords if k.arg}, env=cv.env)
                if outs_cv is not None:
                    return outs_cv
                return [(self._default_for_type(self.R.ret_type(cv.func)), st)]
        # repo callee
        tg, how = self.R.callees(c, fn, count=False)
        if how == "resolved" and tg and any(t.qual in self.stubs or "*." + t.name in self.stubs for t in tg):
            recv0: AV | None = None
            if isinstance(fx, ast.Attribute):
                recv0 = self.ev(fx.value, st, fn, depth)
            key0 = [t.qual if t.qual in self.stubs else "*." + t.name for t in tg if t.qual in self.stubs or "*." + t.name in self.stubs][0]
            return [(self.stubs[key0](args, kws, recv0), st)]
        if how == "resolved" and tg and len(tg) == 1 and tg[0].qual in self.C.ret:
            return [(self.bounds_iv(self.C.ret[tg[0].qual]), st)]  # established summary (proved where the callee is analysed)
        if how == "resolved" and tg:
            # constructor call Class(...)  -> [__new__?, __init__]
            ft = self.R.type_of(fx, self.R.scope(fn))
            if isinstance(ft, tuple) and ft[0] == "type" and isinstance(ft[1], str):
                return self._construct(ft[1], tg, c, args, kws, st, fn, depth)
            # super().__new__(cls)
            if len(tg) == 1 or all(t.name == tg[0].name for t in tg):
                cands = tg
                recv: AV | None = None
                if isinstance(fx, ast.Attribute):
                    rv = self.ev(fx.value, st, fn, depth) if not (isinstance(fx.value, ast.Call) and unparse(fx.value.func) == "super") else st.get("self")
                    if isinstance(rv, Obj):
                        recv = rv
                        # dynamic dispatch on the concrete type when known
                        cc = M.cls(rv.tname, required=False)
                        if cc is not None:
                            m = M.find_method(cc, tg[0].name)
                            if m is not None and not (isinstance(fx.value, ast.Call)):
                                cands = [m]
                                if "$exact" not in rv.fields:
                                    cands = [m] + [o for o in M.overrides(m)]  # declared type: any subclass may be the receiver
                        cands = [x for x in cands if not self._is_abstract(x)] or cands[:1]
                        if all(self._is_abstract(x) for x in cands) or len(cands) > 3:
                            # abstract, or too many possible receivers to follow: sound default for the declared return type
                            rb0 = self.C.ret.get(cands[0].qual)
                            return [(self.bounds_iv(rb0) if rb0 is not None else self._default_for_type(self.R.ret_type(cands[0])), st)]
                    elif isinstance(rv, (Iv, Top, NoneV)) or rv is None:
                        t = self.R.type_of(fx.value, self.R.scope(fn))
                        if isinstance(t, str) and M.cls(t, required=False) is not None and tg[0].kind in ("method", "property"):
                            recv = Obj(t)
                results: list[tuple[AV, State]] = []
                ok = True
                rkey: str | None = None
                if isinstance(fx, ast.Attribute):
                    if isinstance(fx.value, ast.Name) and fx.value.id in ("self",):
                        rkey = fx.value.id
                    elif isinstance(fx.value, ast.Call) and unparse(fx.value.func) == "super":
                        rkey = fn.self_name if fn.kind not in ("classmethod", "staticmethod") else None
                for f in cands:
                    self._check_pre(f, c, args, kws, st, fn, depth)
                    outs = self.inline(f, args, kws, st, fn, depth, recv, c, [a for a in c.args if not isinstance(a, ast.Starred)], {k.arg: k.value for k in c.keywords if k.arg}, recv_key=rkey)
                    if outs is None:
                        ok = False
                        break
                    results += outs
                if ok:
                    return results
                rb = self.C.ret.get(tg[0].qual)
                if rb is not None:
                    return [(self.bounds_iv(rb), st)]
                return [(self._default_for_type(self.R.ret_type(tg[0])), st)]
        if isinstance(fx, ast.Attribute) and isinstance(fx.value, ast.Call) and unparse(fx.value.func) == "super" and fx.attr == "__new__":
            cn = fn.cls.name if fn.cls else "object"
            return [(Obj(cn), st)]
        if isinstance(fx, ast.Attribute) and fx.attr == "__new__" and c.args:
            t = self.R.type_of(c.args[0], self.R.scope(fn))
            if isinstance(t, tuple) and t[0] == "type":
                return [(Obj(t[1]), st)]
        t = self.R.type_of(c, self.R.scope(fn))
        if isinstance(t, str) and len(args) == 1 and isinstance(args[0], Iv):
            ec = self.M.cls(t, required=False)
            if ec is not None and (self.M.is_subclass(ec, "IntEnum") or self.M.is_subclass(ec, "IntFlag")) and isinstance(fx, ast.Name):
                return [(args[0], st)]  # IntEnum(value) carries the numeric value
        return [(self._default_for_type(t), st)]

    _cc_memo: dict[tuple[int, str], bool] = {}

    def _is_class_constant(self, c: Cls, mattr: str) -> bool:
        """self.X where X is a class-level constant never stored as an instance field anywhere in the class hierarchy."""
        key = (id(c), mattr)
        if key not in self._cc_memo:
            ok = self.M.find_class_attr(c, mattr) is not None
            if ok:
                for k in self.M.mro(c):
                    for f in k.all_defs:
                        if isinstance(f.node, ast.Lambda):
                            continue
                        for n in ast.walk(f.node):
                            if isinstance(n, ast.Attribute) and isinstance(n.ctx, ast.Store) and mangle(k.name, n.attr) == mattr:
                                ok = False
            self._cc_memo[key] = ok
        return self._cc_memo[key]

    _abs_memo: dict[int, bool] = {}

    def _is_abstract(self, f: Func) -> bool:
        k = id(f)
        if k not in self._abs_memo:
            b = f.body if not isinstance(f.node, ast.Lambda) else []
            self._abs_memo[k] = ("abstractmethod" in f.decorators or "abc.abstractmethod" in f.decorators) or (
                len(b) == 1 and (
                    (isinstance(b[0], ast.Raise) and b[0].exc is not None and "NotImplementedError" in unparse(b[0].exc))
                    or (isinstance(b[0], ast.Expr) and isinstance(b[0].value, ast.Constant) and b[0].value.value is Ellipsis)
                    or isinstance(b[0], ast.Pass)
                )
            )
        return self._abs_memo[k]

    def _construct(self, tname: str, tg: list[Func], c: ast.Call, args: list[AV], kws: dict[str, AV], st: State, fn: Func, depth: int) -> list[tuple[AV, State]]:
        init = [f for f in tg if f.name == "__init__"]
        if not init:
            return [(Obj(tname, {"$exact": Iv(1, 1)}), st)]
        f = init[0]
        self._check_pre(f, c, args, kws, st, fn, depth)
        outs = self.inline(f, args, kws, st, fn, depth, Obj(tname, {"$exact": Iv(1, 1)}), c, [a for a in c.args if not isinstance(a, ast.Starred)], {k.arg: k.value for k in c.keywords if k.arg}, want_self=True)
        if outs is None:
            return [(Obj(tname), st)]
        return outs

    def _check_pre(self, f: Func, c: ast.Call, args: list[AV], kws: dict[str, AV], st: State, fn: Func, depth: int) -> None:
        """Record precondition obligations for a call to f (only for the entry function itself: depth 0)."""
        if self.on_call is not None and (depth == 0 or self.hooks_all_depths):
            bound = self._bind(f, args, kws)
            self.on_call(c, f, bound, st, fn)
        if depth != 0 and not (depth <= 2 and fn.name.startswith("__") and not fn.name.endswith("__")):
            # obligations are recorded for the entry function itself - and inside name-private helpers it calls (a construction
            # that was moved into a `__helper` is decided in the context of each caller, where its arguments are known)
            return
        pres = [(p, b) for (q, p), b in self.C.pre.items() if q == f.qual]
        if not pres:
            return
        bound = self._bind(f, args, kws)
        for p, b in pres:
            if p not in bound:
                d = f.default_of(p)
                if d is None:
                    continue
                v: AV = self.ev(d, State(), f, self.max_depth)
            else:
                v = bound[p]
            self.record("pre", f"{f.qual}({p})", b, v, fn, c)

    def record(self, kind: str, target: str, b: tuple[float, float], v: AV, fn: Func, node: ast.AST, expr: str = "") -> None:
        if isinstance(v, NoneV):
            return
        x = num(v) if isinstance(v, (Iv, ConstV)) else TOPINT
        if x.within(b[0], b[1]):
            status = "PROVED"
        elif isinstance(v, Iv) and v.prec and v.bounded:
            status = "REFUTED"
        else:
            status = "UNDECIDED"
        self.obligations.append(Obligation(self.entry_label or fn.qual, kind, target, b, x, f"{fn.mod.rel}:{getattr(node, 'lineno', 0)}", status, expr or unparse(node)[:120]))

    def _bind(self, f: Func, args: list[AV], kws: dict[str, AV]) -> dict[str, AV]:
        out: dict[str, AV] = {}
        a = f.node.args
        pos = [p.arg for p in [*a.posonlyargs, *a.args]]
        if f.cls is not None and f.kind in ("method", "classmethod", "property", "setter") and pos:
            pos = pos[1:]
        for p, v in zip(pos, args):
            out[p] = v
        out.update(kws)
        return out

    def inline(self, f: Func, args: list[AV], kws: dict[str, AV], st: State, fn: Func, depth: int, recv: AV | None, node: ast.AST,
               arg_exprs: list[ast.expr], kw_exprs: dict[str, ast.expr], want_self: bool = False, recv_key: str | None = None, env: Any = None) -> list[tuple[AV, State]] | None:
        """Inline f in the caller's context. Returns None if not inlined (too deep / opaque / recursive / too big)."""
        if depth >= self.max_depth or f.qual in self.C.opaque or id(f) in self._inline_stack or isinstance(f.node, ast.Lambda) and False:
            self.opaque_log.append((f.qual, "depth" if depth >= self.max_depth else "recursive" if id(f) in self._inline_stack else "opaque"))
            return None
        if not isinstance(f.node, ast.Lambda):
            size = getattr(f.node, "_size", None)
            if size is None:
                size = sum(1 for _ in ast.walk(f.node))
                f.node._size = size  # type: ignore[attr-defined]
            if size > self.max_nodes:
                self.opaque_log.append((f.qual, "size"))
                return None
            if any(isinstance(n, (ast.Yield, ast.YieldFrom)) for n in own_nodes(f.node)):
                return None
        bound = self._bind(f, args, kws)
        init: dict[str, AV] = {}
        alias: dict[str, str] = {}
        a = f.node.args
        pos = [p.arg for p in [*a.posonlyargs, *a.args]]
        if f.cls is not None and f.kind in ("method", "classmethod", "property", "setter") and pos:
            pos = pos[1:]
        for i, p in enumerate(pos):
            if i < len(arg_exprs):
                k = self.key_of(arg_exprs[i], fn)
                if k is not None and isinstance(arg_exprs[i], (ast.Name, ast.Attribute)):
                    alias[p] = k
        for p, ex in kw_exprs.items():
            k = self.key_of(ex, fn)
            if k is not None and isinstance(ex, (ast.Name, ast.Attribute)):
                alias[p] = k
        for p in f.params:
            if p.arg == f.self_name:
                continue
            if p.arg in bound:
                init[p.arg] = bound[p.arg]
            else:
                d = f.default_of(p.arg)
                init[p.arg] = self.ev(d, State(), f, self.max_depth) if d is not None else self._param_default(f, p)
        # preconditions of f refine its parameters (assumed inside, obligation at the call site)
        for (q, p), b in self.C.pre.items():
            if q == f.qual and p in init and isinstance(init[p], (Iv, Top)):
                x = num(init[p])
                init[p] = Iv(max(x.lo, b[0]), min(x.hi, b[1]), x.prec)
        if env is not None:
            est, _eowner = env
            bound_names = {p.arg for p in f.params}
            free = {n.id for n in ast.walk(f.node) if isinstance(n, ast.Name) and isinstance(n.ctx, ast.Load)} - bound_names
            for nm in free:
                if nm in init:
                    continue
                for k2, v2 in est.d.items():
                    if k2 == nm or k2.startswith(nm + "."):
                        init[k2] = v2
        sn = f.self_name
        if sn is not None:
            if f.kind == "classmethod":
                pass
            elif recv is not None:
                init[sn] = recv
                if isinstance(recv, Obj):
                    for fk, fv in recv.fields.items():
                        init[f"{sn}.{fk}"] = fv
            elif f.cls is not None and not self.M.is_subclass(f.cls, "type"):
                init[sn] = Obj(f.cls.name)
        self._inline_stack.append(id(f))
        self._inline_names.append(f.qual)
        try:
            rets, falls = self.run_function(f, State(init), depth + 1)
        except Budget:
            self.opaque_log.append((f.qual, "budget"))
            return None
        finally:
            self._inline_stack.pop()
            self._inline_names.pop()
        outs: list[tuple[AV, State]] = []
        for v, fin in rets + [(NONE, s) for s in falls]:
            s2 = st
            for p, k in alias.items():
                pv = fin.get(p)
                cur = st.get(k)
                if isinstance(pv, Iv):
                    if isinstance(cur, Iv):
                        m = Iv(max(pv.lo, cur.lo), min(pv.hi, cur.hi), cur.prec and pv.prec)
                        if m.empty:
                            m = pv
                        s2 = s2.refine(k, m)
                    elif cur is None or isinstance(cur, Top):
                        if pv.lo != -INF or pv.hi != INF:
                            s2 = s2.refine(k, pv)
            if recv_key is not None and sn is not None and f.kind not in ("classmethod", "staticmethod"):
                # stores the callee made on its receiver are stores on the caller's receiver object
                pref = sn + "."
                for k2, v2 in fin.d.items():
                    if k2.startswith(pref) and "." not in k2[len(pref):] and not isinstance(v2, SymV):
                        if s2.get(recv_key + "." + k2[len(pref):]) != v2:
                            s2 = s2.refine(recv_key + "." + k2[len(pref):], v2)
            if want_self and sn is not None:
                sv = fin.get(sn)
                v = self._materialize(sn, sv if isinstance(sv, Obj) else Obj(f.cls.name if f.cls else "object"), fin)
            outs.append((v, s2))
        # merge identical
        seen = set()
        res = []
        for v, s in outs:
            kk = (hash(v), hash(s))
            if kk in seen:
                continue
            seen.add(kk)
            res.append((v, s))
        if len(res) > self.budget:
            jv = res[0][0]
            for v, _ in res[1:]:
                jv = join(jv, v)
            return [(jv, join_states([s for _, s in res]))]
        return res

    def _param_default(self, f: Func, p: ast.arg) -> AV:
        t = self.M.ann_type(p.annotation, f.mod)
        if isinstance(t, tuple) and t[0] == "union":
            return TOP
        ann = unparse(p.annotation) if p.annotation is not None else ""
        if "None" in ann:
            return TOP
        return self._default_for_type(t)

    # ---------------------------------------------------------------- conditions
    NEG = {ast.Lt: ast.GtE, ast.LtE: ast.Gt, ast.Gt: ast.LtE, ast.GtE: ast.Lt, ast.Eq: ast.NotEq, ast.NotEq: ast.Eq, ast.Is: ast.IsNot, ast.IsNot: ast.Is}

    def assume(self, c: ast.expr, st: State, fn: Func, truth: bool, depth: int) -> list[State]:
        if isinstance(c, ast.UnaryOp) and isinstance(c.op, ast.Not):
            return self.assume(c.operand, st, fn, not truth, depth)
        if isinstance(c, ast.BoolOp):
            conj = isinstance(c.op, ast.And) == truth
            if conj:
                states = [st]
                for v in c.values:
                    states = [s2 for s in states for s2 in self.assume(v, s, fn, truth, depth)]
                return states
            out: list[State] = []
            # disjunction: first disjunct holds, or (first fails and second holds) ...
            prefix = [st]
            for v in c.values:
                nxt_prefix: list[State] = []
                for s in prefix:
                    out += self.assume(v, s, fn, truth, depth)
                    nxt_prefix += self.assume(v, s, fn, not truth, depth)
                prefix = nxt_prefix
                if not prefix:
                    break
            return out
        if isinstance(c, ast.Compare) and len(c.ops) == 1 and isinstance(c.ops[0], (ast.Eq, ast.NotEq)):
            # (x & 2**k) == 0 / != 0 on x in [0, 2**(k+1) - 1]: the test splits the range at 2**k
            l0, r0 = c.left, c.comparators[0]
            if isinstance(r0, ast.BinOp) and isinstance(r0.op, ast.BitAnd):
                l0, r0 = r0, l0
            if isinstance(l0, ast.BinOp) and isinstance(l0.op, ast.BitAnd) and isinstance(l0.left, (ast.Name, ast.Attribute)):
                zero = self.ev(r0, st, fn, depth)
                mask = self.ev(l0.right, st, fn, depth)
                xv = self.ev(l0.left, st, fn, depth)
                kx = self.key_of(l0.left, fn)
                if isinstance(zero, Iv) and zero.const and zero.lo == 0 and isinstance(mask, Iv) and mask.const and mask.lo > 0 and int(mask.lo) & (int(mask.lo) - 1) == 0 and isinstance(xv, Iv) and xv.lo >= 0 and xv.hi <= 2 * mask.lo - 1 and kx is not None:
                    clear = isinstance(c.ops[0], ast.Eq) == truth
                    m = mask.lo
                    nv = Iv(xv.lo, min(xv.hi, m - 1), xv.prec) if clear else Iv(max(xv.lo, m), xv.hi, xv.prec)
                    return [] if nv.empty else [st.refine(kx, nv)]
        if isinstance(c, ast.Compare):
            parts = []
            left = c.left
            for op, right in zip(c.ops, c.comparators):
                parts.append((left, op, right))
                left = right
            if truth:
                states = [st]
                for (l, op, r) in parts:
                    states = [s2 for s in states for s2 in self.cmp(l, op, r, s, fn, True, depth)]
                return states
            out = []
            for (l, op, r) in parts:
                out += self.cmp(l, op, r, st, fn, False, depth)
            return out
        if isinstance(c, ast.NamedExpr) and isinstance(c.target, ast.Name):
            v = self.ev(c.value, st, fn, depth)
            st2 = st.set(c.target.id, v)
            return self._truthy(c.target, v, st2, fn, truth)
        if isinstance(c, ast.Constant):
            return [st] if bool(c.value) == truth else []
        if isinstance(c, ast.Call) and unparse(c.func) == "callable" and len(c.args) == 1:
            v0 = self.ev(c.args[0], st, fn, depth)
            resc: bool | None = None
            if isinstance(v0, NN) and v0.kind == "callable":
                resc = True
            elif isinstance(v0, (NoneV, Iv, ConstV, Tup)) or isinstance(v0, NN) and v0.kind in ("str", "bytes", "list", "dict", "set"):
                resc = False
            elif isinstance(v0, Obj):
                cc = self.M.cls(v0.tname, required=False)
                if cc is not None and self.M.find_method(cc, "__call__") is None:
                    resc = False
            if resc is None:
                return [st]
            return [st] if resc == truth else []
        if isinstance(c, ast.Call) and unparse(c.func) == "isinstance" and len(c.args) == 2:
            v0 = self.ev(c.args[0], st, fn, depth)
            res0 = self._isinstance(v0, c.args[1])
            if res0 is None:
                return [st]
            return [st] if res0 == truth else []
        v = self.ev(c, st, fn, depth)
        return self._truthy(c, v, st, fn, truth)

    def _isinstance(self, v: AV, texpr: ast.expr) -> bool | None:
        names: list[str] = []

        def collect(t: ast.expr) -> None:
            if isinstance(t, ast.BinOp) and isinstance(t.op, ast.BitOr):
                collect(t.left)
                collect(t.right)
            elif isinstance(t, ast.Tuple):
                for x in t.elts:
                    collect(x)
            else:
                names.append(unparse(t).split(".")[-1])

        collect(texpr)
        if isinstance(v, Obj):
            if any(self.M.is_subclass(v.tname, n) for n in names):
                return True
            if all(n in ("int", "float", "str", "bool", "bytes") or self.M.cls(n, required=False) is not None for n in names):
                return False
            return None
        if isinstance(v, NoneV):
            return False
        if isinstance(v, NN):
            if v.kind in ("str", "bytes", "bytearray", "list", "dict", "set"):
                if v.kind in names:
                    return True
                if all(n in ("int", "float", "str", "bool", "bytes", "list", "dict", "set", "tuple") or self.M.cls(n, required=False) is not None for n in names):
                    return False
            if v.kind == "callable" and all(self.M.cls(n, required=False) is not None for n in names):
                return False  # functions are not instances of repository classes
            return None
        if isinstance(v, ConstV) and isinstance(v.v, str):
            if "str" in names:
                return True
            if all(n in ("int", "float", "bool", "bytes") or self.M.cls(n, required=False) is not None for n in names):
                return False
        if isinstance(v, Iv) and v.prec and v.const and float(v.lo).is_integer():
            if "int" in names:
                return True
            if not any(n in ("float", "bool", "object", "complex", "Number", "Real", "Integral", "SupportsInt", "Any") for n in names):
                return False
        return None

    def _truthy(self, e: ast.expr, v: AV, st: State, fn: Func, truth: bool) -> list[State]:
        if isinstance(v, NoneV):
            return [] if truth else [st]
        if isinstance(v, Iv):
            if v.const:
                return [st] if (v.lo != 0) == truth else []
            k = self.key_of(e, fn) if isinstance(e, (ast.Name, ast.Attribute)) else None
            if not truth and k is not None and v.lo <= 0 <= v.hi:
                return [st.refine(k, Iv(0, 0))]
            return [st]
        if isinstance(v, Obj):
            c = self.M.cls(v.tname, required=False)
            if c is not None and self.M.find_method(c, "__bool__") is None and self.M.find_method(c, "__len__") is None and not {b for b in self.M._ext_bases(c) if self.M.cls(b, required=False) is None} - {"object", "ABC", "Generic", "Protocol"}:
                return [st] if truth else []  # plain objects are always truthy
            return [st]  # objects may define __bool__/__len__; do not decide
        if isinstance(v, NN) and v.kind in ("callable", "type"):
            return [st] if truth else []
        if isinstance(v, ConstV) and isinstance(v.v, (str, bytes)) and v.v not in ("<str>",):
            return [st] if bool(v.v) == truth else []
        return [st]

    def cmp(self, l: ast.expr, op: ast.cmpop, r: ast.expr, st: State, fn: Func, truth: bool, depth: int) -> list[State]:
        t = type(op)
        for side in (0, 1):
            x = l if side == 0 else r
            if isinstance(x, ast.NamedExpr) and isinstance(x.target, ast.Name):
                v0 = self.ev(x.value, st, fn, depth)
                st = st.set(x.target.id, v0, self.term(x.value, st, fn) if isinstance(v0, Iv) else None)
                nm = ast.Name(id=x.target.id, ctx=ast.Load())
                ast.copy_location(nm, x)
                nm._parent = getattr(x, "_parent", None)  # type: ignore[attr-defined]
                if side == 0:
                    l = nm
                else:
                    r = nm
        a, b = self.ev(l, st, fn, depth), self.ev(r, st, fn, depth)
        if t in (ast.In, ast.NotIn) and isinstance(r, ast.Call) and isinstance(r.func, ast.Name) and r.func.id == "range" and 1 <= len(r.args) <= 3 and not r.keywords and isinstance(a, Iv) and a.const:
            # membership of an exact integer in range(...) with exact bounds
            ra = [self.ev(x, st, fn, depth) for x in r.args]
            if all(isinstance(x, Iv) and x.const for x in ra):
                try:
                    member = int(a.lo) in range(*[int(x.lo) for x in ra]) and a.lo == int(a.lo)
                except (ValueError, OverflowError):
                    member = None
                if member is not None:
                    return [st] if (member == (t is ast.In)) == truth else []
        if t in (ast.In, ast.NotIn):
            if isinstance(b, Obj):
                return self._obj_compare(l, op, r, a, b, st, fn, truth, depth)
            if isinstance(b, Tup) and isinstance(a, Iv) and all(isinstance(x, Iv) and x.const for x in b.items):
                members = sorted({x.lo for x in b.items})
                want_in = (t is ast.In) == truth
                if a.const:
                    return [st] if (a.lo in members) == want_in else []
                inside_ = [m for m in members if a.lo <= m <= a.hi]
                if want_in:
                    if not inside_:
                        return []
                    k0 = self.key_of(l, fn) if isinstance(l, (ast.Name, ast.Attribute)) else None
                    return [st.refine(k0, Iv(min(inside_), max(inside_), a.prec)) if k0 is not None else st]
                if a.bounded and a.hi - a.lo < 64 and all(v in members for v in range(int(a.lo), int(a.hi) + 1)):
                    return []
            return [st]
        if isinstance(a, Obj) and t in (ast.Lt, ast.LtE, ast.Gt, ast.GtE, ast.Eq, ast.NotEq) and not isinstance(b, NoneV):
            return self._obj_compare(l, op, r, a, b, st, fn, truth, depth)
        if isinstance(a, LinV) or isinstance(b, LinV):
            la, lb = as_lin(a), as_lin(b)
            if la is not None and lb is not None and t in (ast.Lt, ast.LtE, ast.Gt, ast.GtE, ast.Eq, ast.NotEq):
                lo, hi = la.add(lb, -1).sign_range()
                res: bool | None = None
                if t is ast.Lt:
                    res = True if hi < 0 else (False if lo >= 0 else None)
                elif t is ast.LtE:
                    res = True if hi <= 0 else (False if lo > 0 else None)
                elif t is ast.Gt:
                    res = True if lo > 0 else (False if hi <= 0 else None)
                elif t is ast.GtE:
                    res = True if lo >= 0 else (False if hi < 0 else None)
                elif t is ast.Eq:
                    res = True if lo == hi == 0 else (False if lo > 0 or hi < 0 else None)
                elif t is ast.NotEq:
                    res = False if lo == hi == 0 else (True if lo > 0 or hi < 0 else None)
                if res is not None:
                    return [st] if res == truth else []
            self.escaped.append(f"comparison of line positions not decided for all gaps: {unparse(l)[:40]} {type(op).__name__} {unparse(r)[:40]} ({a} vs {b})")
            return [st]
        if isinstance(a, AtomV) or isinstance(b, AtomV):
            if isinstance(a, AtomV) and isinstance(b, AtomV) and a.name in self.ranks and b.name in self.ranks and t in (ast.Lt, ast.LtE, ast.Gt, ast.GtE, ast.Eq, ast.NotEq):
                ra, rb = self.ranks[a.name], self.ranks[b.name]
                res = {ast.Lt: ra < rb, ast.LtE: ra <= rb, ast.Gt: ra > rb, ast.GtE: ra >= rb, ast.Eq: ra == rb, ast.NotEq: ra != rb}[t]
                return [st] if res == truth else []
            if isinstance(a, NoneV) or isinstance(b, NoneV):
                if t in (ast.Is, ast.Eq):
                    return [] if truth else [st]
                if t in (ast.IsNot, ast.NotEq):
                    return [st] if truth else []
            self.escaped.append(f"ordered atom compared with a non-atom: {unparse(l)[:40]} {type(op).__name__} {unparse(r)[:40]}")
            return [st]
        if not truth:
            if t not in self.NEG:
                return [st]
            t = self.NEG[t]
        if t in (ast.Is, ast.IsNot):
            if isinstance(a, Iv) and isinstance(b, Iv) and a.const and b.const and a.prec and b.prec:
                same = a.lo == b.lo  # identity of enum members / small ints coincides with equality
                return [st] if same == (t is ast.Is) else []
            # None tests
            for x, y, ex in ((a, b, l), (b, a, r)):
                if isinstance(y, NoneV):
                    k = self.key_of(ex, fn) if isinstance(ex, (ast.Name, ast.Attribute)) else None
                    if isinstance(x, NoneV):
                        return [st] if t is ast.Is else []
                    if isinstance(x, (Iv, Obj, Tup, ConstV, NN)):
                        return [] if t is ast.Is else [st]
                    if k is not None and t is ast.Is:
                        return [st.refine(k, NONE)]
                    return [st]
            return [st]
        if isinstance(a, NoneV) or isinstance(b, NoneV):
            if t is ast.Eq:
                return [st] if isinstance(a, NoneV) and isinstance(b, NoneV) else ([] if isinstance(a, (Iv, Obj, NN)) or isinstance(b, (Iv, Obj, NN)) else [st])
            return [st]
        if isinstance(a, Obj) or isinstance(b, Obj) or isinstance(a, NN) or isinstance(b, NN):
            return [st]
        if isinstance(a, ConstV) and not isinstance(a.v, float) or isinstance(b, ConstV) and not isinstance(b.v, float):
            if isinstance(a, ConstV) and isinstance(b, ConstV) and t in (ast.Eq, ast.NotEq):
                return [st] if (a.v == b.v) == (t is ast.Eq) else []
            return [st]
        if isinstance(a, Tup) or isinstance(b, Tup):
            return [st]
        x, y = num(a), num(b)

        def setv(s: State, e: ast.expr, iv: Iv) -> State:
            if isinstance(e, (ast.Name, ast.Attribute)):
                k = self.key_of(e, fn)
                if k is not None and self.M.fold(e, fn.cls, fn.mod) is UNKNOWN:
                    return s.refine(k, iv)
            if isinstance(e, ast.NamedExpr) and isinstance(e.target, ast.Name):
                return s.refine(e.target.id, iv)
            return s

        if t is ast.NotEq:
            if x.const and y.const:
                return [st] if x.lo != y.lo else []
            outs = []
            # exclude an end point when the other side is a constant
            if y.const and x.bounded is not None:
                if x.lo == y.lo:
                    outs.append(setv(st, l, Iv(x.lo + 1, x.hi, x.prec)))
                elif x.hi == y.lo:
                    outs.append(setv(st, l, Iv(x.lo, x.hi - 1, x.prec)))
                elif x.lo < y.lo < x.hi:
                    outs.append(setv(st, l, Iv(x.lo, y.lo - 1, x.prec)))
                    outs.append(setv(st, l, Iv(y.lo + 1, x.hi, x.prec)))
                else:
                    outs.append(st)
                return [o for o in outs]
            if x.const:
                return self.cmp(r, ast.NotEq(), l, st, fn, True, depth)
            return [st]
        if t is ast.Lt:
            na, nb = Iv(x.lo, min(x.hi, y.hi - 1), x.prec), Iv(max(y.lo, x.lo + 1), y.hi, y.prec)
        elif t is ast.LtE:
            na, nb = Iv(x.lo, min(x.hi, y.hi), x.prec), Iv(max(y.lo, x.lo), y.hi, y.prec)
        elif t is ast.Gt:
            na, nb = Iv(max(x.lo, y.lo + 1), x.hi, x.prec), Iv(y.lo, min(y.hi, x.hi - 1), y.prec)
        elif t is ast.GtE:
            na, nb = Iv(max(x.lo, y.lo), x.hi, x.prec), Iv(y.lo, min(y.hi, x.hi), y.prec)
        elif t is ast.Eq:
            m = Iv(max(x.lo, y.lo), min(x.hi, y.hi), x.prec and y.prec)
            na = nb = m
            if self.track_eq and not m.empty:
                for ex_, iv_ in ((l, y), (r, x)):
                    if iv_.const and not isinstance(ex_, (ast.Name, ast.Attribute, ast.Constant)):
                        tt = self.term(ex_, st, fn)
                        if tt is not None:
                            st = st.refine("\u00a7eq:" + repr(tt), Iv(iv_.lo, iv_.lo))
        else:
            return [st]
        if na.empty or nb.empty:
            return []
        s = st
        if isinstance(a, (Iv, Top)) or a is None:
            s = setv(s, l, na)
        if isinstance(b, (Iv, Top)) or b is None:
            s = setv(s, r, nb)
        # difference fact between two variables (a - b in ...), used by a later subtraction of the same two variables
        if isinstance(l, (ast.Name, ast.Attribute)) and isinstance(r, (ast.Name, ast.Attribute)) and t in (ast.Lt, ast.LtE, ast.Gt, ast.GtE) and not (x.const or y.const):
            ka, kb = self.key_of(l, fn), self.key_of(r, fn)
            if ka and kb and ka != kb:
                d = {ast.Gt: Iv(1, INF), ast.GtE: Iv(0, INF), ast.Lt: Iv(-INF, -1), ast.LtE: Iv(-INF, 0)}[t]
                s = s.refine("\u00a7rel:" + ka + "|" + kb, d)
        return [s]

    def _obj_compare(self, l: ast.expr, op: ast.cmpop, r: ast.expr, a: AV, b: AV, st: State, fn: Func, truth: bool, depth: int) -> list[State]:
        """Comparison with an object operand: inline the dunder method and decide by its returned truth value."""
        from .resolve import DUNDER

        dn = DUNDER.get(type(op))
        recv, arg, arg_e = (b, a, l) if isinstance(op, (ast.In, ast.NotIn)) else (a, b, r)
        if dn is None or not isinstance(recv, Obj):
            return [st]
        c = self.M.cls(recv.tname, required=False)
        f = self.M.find_method(c, dn) if c is not None else None
        if f is None:
            if dn == "__ne__" and c is not None and self.M.find_method(c, "__eq__") is not None:
                # default __ne__ inverts __eq__
                return self._obj_compare(l, ast.Eq(), r, a, b, st, fn, not truth, depth)
            if dn in ("__eq__", "__ne__") and isinstance(arg, Obj):
                # identity semantics (object.__eq__): decided only when both are the same abstract singleton
                same = recv == arg and bool(recv.fields.get("$id"))
                differ = bool(recv.fields.get("$id")) and bool(arg.fields.get("$id")) and recv.fields.get("$id") != arg.fields.get("$id")
                if same or differ:
                    res = same if dn == "__eq__" else not same
                    return [st] if res == truth else []
            return [st]
        outs = self.inline(f, [arg], {}, st, fn, depth, recv, l, [arg_e], {})
        if outs is None:
            return [st]
        want = truth if not isinstance(op, ast.NotIn) else not truth
        res: list[State] = []
        for v, s2 in outs:
            if isinstance(v, Iv) and v.const:
                if (v.lo != 0) == want:
                    res.append(s2)
            elif isinstance(v, ConstV) and v.v == "NotImplemented":
                self.escaped.append(f"{f.qual} returned NotImplemented for {arg}")
                res.append(s2)
            else:
                res.append(s2)
        return res

    # ---------------------------------------------------------------- statements / functions
    def run_function(self, f: Func, init: State, depth: int) -> tuple[list[tuple[AV, State]], list[State]]:
        """Returns ([(returned value, final state)], [fall-through states])."""
        interp = self

        def noreturn(c: ast.Call) -> bool:
            return False

        class W(PathWalker):
            def stmt(self2, s: ast.stmt, st: State, ex: Exits) -> list[Any]:  # noqa: N805
                interp.steps += 1
                if interp.steps > 400000:
                    raise Budget()
                if isinstance(s, ast.If):
                    out: list[Any] = []
                    tstates = interp.assume(s.test, st, f, True, depth)
                    fstates = interp.assume(s.test, st, f, False, depth)
                    if interp.track_pc and depth == 0:
                        tstates = [interp._push_pc(x, s.test, True) for x in tstates]
                        fstates = [interp._push_pc(x, s.test, False) for x in fstates]
                    out += self2.block(s.body, tstates, ex)
                    out += self2.block(s.orelse, fstates, ex)
                    return interp._cap(out)
                if isinstance(s, (ast.While, ast.For)):
                    return interp._loop(self2, s, st, ex, f, depth)
                if isinstance(s, ast.Return):
                    if s.value is None:
                        ex.returns.append((s, (NONE, st)))
                        return []
                    if isinstance(s.value, ast.Call):
                        for v, s2 in interp.call(s.value, st, f, depth):
                            ex.returns.append((s, (v, s2)))
                        return []
                    ex.returns.append((s, (interp.ev(s.value, st, f, depth), st)))
                    return []
                if isinstance(s, ast.Match):
                    return interp._match(self2, s, st, ex, f, depth)
                if isinstance(s, ast.FunctionDef) and interp.follow_callables:
                    nf = interp.M.func_of_node.get(id(s))
                    if nf is not None:
                        return [st.set(s.name, NN("callable", nf, (st, f)))]
                return PathWalker.stmt(self2, s, st, ex)

        def on_stmt(s: ast.stmt, st: State):
            return interp.simple_stmt(s, st, f, depth)

        w = W(on_stmt=on_stmt)
        w.max_states = max(self.budget * 8, 512)
        ex = w.run(f.body, init)
        rets = [(v, s) for (_, (v, s)) in ex.returns]
        for rs, _st in ex.raises:
            if isinstance(rs, ast.Raise):
                key = (f.qual, unparse(rs.exc)[:80] if rs.exc is not None else "re-raise")
                self.raise_log.append(key)
                self.raise_paths.setdefault(key, tuple(self._inline_names))
        if depth == 0 and self.on_return is not None:
            for r, (v, s) in ex.returns:
                self.on_return(r, v, s, f)
        return rets, self._cap(ex.fall)

    @staticmethod
    def _push_pc(st: State, test: ast.expr, truth: bool) -> State:
        old = st.get("\u00a7pc")
        prev = old.v if isinstance(old, ConstV) else ()
        return st.refine("\u00a7pc", ConstV(prev + ((getattr(test, "lineno", 0), getattr(test, "col_offset", 0), truth, unparse(test)[:120]),)))

    @staticmethod
    def pc_of(st: State) -> tuple:
        v = st.get("\u00a7pc")
        return v.v if isinstance(v, ConstV) else ()

    def _cap(self, states: list[State]) -> list[State]:
        states = PathWalker._dedupe(states)
        if len(states) > self.budget:
            return [join_states(states)]
        return states

    def _assigned_keys(self, body: list[ast.stmt], fn: Func) -> set[str]:
        out: set[str] = set()
        for s in body:
            for n in ast.walk(s):
                if isinstance(n, (ast.Name, ast.Attribute)) and isinstance(getattr(n, "ctx", None), (ast.Store, ast.Del)):
                    k = self.key_of(n, fn)
                    if k:
                        out.add(k)
                elif isinstance(n, ast.NamedExpr) and isinstance(n.target, ast.Name):
                    out.add(n.target.id)
        return out

    def _loop(self, w: PathWalker, s: ast.While | ast.For, st: State, ex: Exits, f: Func, depth: int) -> list[State]:
        """Coarse, sound loop treatment: havoc every variable assigned in the body, run the body once, exit on the negated condition.
        `for x in range(<constants>)` with a small trip count is unrolled exactly instead."""
        if isinstance(s, ast.For) and isinstance(s.target, ast.Name) and isinstance(s.iter, ast.Call) and unparse(s.iter.func) == "range" and not s.orelse:
            ra = [self.ev(a, st, f, depth) for a in s.iter.args]
            if ra and all(isinstance(x, Iv) and x.const and x.bounded for x in ra) and len(ra) <= 2:
                lo_, hi_ = (0, int(ra[0].lo)) if len(ra) == 1 else (int(ra[0].lo), int(ra[1].lo))
                if hi_ - lo_ <= 64:
                    cur = [st]
                    done: list[State] = []
                    for i_ in range(lo_, hi_):
                        sub = Exits()
                        nxt = w.block(s.body, [x.set(s.target.id, Iv(i_, i_)) for x in cur], sub)
                        ex.returns += sub.returns
                        ex.raises += sub.raises
                        done += sub.breaks
                        cur = self._cap(nxt + sub.continues)
                        if not cur:
                            break
                    return self._cap(cur + done)
        keys = self._assigned_keys(s.body, f)
        d = dict(st.d)
        for k in list(d):
            v = d[k]
            if isinstance(v, SymV):
                if k[1:] in keys or any(term_mentions(v.t, x) for x in keys):
                    del d[k]
                continue
            if k in keys or any(k.startswith(x + ".") for x in keys):
                d[k] = TOPINT if isinstance(v, Iv) else TOP
        hav = State(d)
        hav = self._loop_invariant(w, s, st, hav, keys, f, depth)
        sub = Exits()
        if isinstance(s, ast.While):
            inb = self.assume(s.test, hav, f, True, depth)
            exits = self.assume(s.test, hav, f, False, depth)
            # zero-iteration exit keeps the precise entry state
            exits += self.assume(s.test, st, f, False, depth)
        else:
            it = s.iter
            tv: AV = TOP
            if isinstance(it, ast.Call) and unparse(it.func) == "range":
                ra = [num(self.ev(a, st, f, depth)) for a in it.args]
                if len(ra) == 1:
                    tv = Iv(0, ra[0].hi - 1, ra[0].prec)
                elif len(ra) >= 2:
                    tv = Iv(ra[0].lo, ra[1].hi - 1, ra[0].prec and ra[1].prec)
                    if len(ra) == 3 and not (ra[2].const and ra[2].lo > 0):
                        tv = TOPINT
            else:
                tbl = self.M.fold(it, f.cls, f.mod)
                if isinstance(tbl, (list, tuple, bytes)) and tbl and all(isinstance(x, int) for x in tbl):
                    tv = Iv(min(tbl), max(tbl))
                else:
                    t = self.R.type_of(it, self.R.scope(f))
                    if isinstance(t, tuple) and t[0] == "list":
                        tv = self._default_for_type(t[1])
            hb = hav
            if isinstance(s.target, ast.Name):
                hb = hav.set(s.target.id, tv)
            inb = [hb] if not (isinstance(tv, Iv) and tv.empty) else []
            exits = [hav, st]
        out = w.block(s.body, inb, sub)
        ex.returns += sub.returns
        ex.raises += sub.raises
        exits += sub.breaks
        # states reaching the end of the body re-test the condition: covered by the havocked exit states
        exits = self._cap(exits)
        if s.orelse:
            exits = w.block(s.orelse, exits, ex)
        return exits

    def _loop_invariant(self, w: PathWalker, s: ast.While | ast.For, st: State, hav: State, keys: set[str], f: Func, depth: int) -> State:
        """Strengthen the havocked loop state with interval bounds that are inductive: a candidate bound taken from the entry
        state (lower bound 0 for non-negative entries, the entry's finite upper bound) is kept when one abstract execution of
        the body from the candidate state re-establishes it.  The trial run records nothing."""
        if not isinstance(s, ast.While) or self._in_trial:
            return hav
        cand: dict[str, list[float]] = {}
        for k in keys:
            v = st.get(k)
            if isinstance(v, Iv) and isinstance(hav.get(k), Iv):
                lo = 0.0 if v.lo >= 0 else -INF
                hi = v.hi if v.hi != INF else INF
                if lo != -INF or hi != INF:
                    cand[k] = [lo, hi]
        if not cand:
            return hav
        saved = (len(self.raise_log), len(self.obligations), len(self.opaque_log), self.on_call, self.on_store, self.on_field_write, self.on_fstring, self.on_binop, self.on_builtin, self.on_return, self.on_callable, dict(self.raise_paths))
        self.on_call = self.on_store = self.on_field_write = self.on_fstring = self.on_binop = self.on_builtin = self.on_return = self.on_callable = None
        self._in_trial = True
        try:
            for _ in range(3):
                d = dict(hav.d)
                for k, (lo, hi) in cand.items():
                    d[k] = Iv(lo, hi, False)
                trial = State(d)
                sub = Exits()
                try:
                    ends = w.block(s.body, self.assume(s.test, trial, f, True, depth), sub)
                except Budget:
                    return hav
                ends = list(ends) + list(sub.continues)
                bad = False
                for k in list(cand):
                    lo, hi = cand[k]
                    for e in ends:
                        v = e.get(k)
                        x = v if isinstance(v, Iv) else None
                        if x is None or x.lo < lo:
                            if lo != -INF:
                                cand[k][0] = -INF
                                bad = True
                        if x is None or x.hi > hi:
                            if hi != INF:
                                cand[k][1] = INF
                                bad = True
                    if cand[k] == [-INF, INF]:
                        del cand[k]
                if not bad:
                    d = dict(hav.d)
                    for k, (lo, hi) in cand.items():
                        d[k] = Iv(lo, hi, False)
                    return State(d)
                if not cand:
                    return hav
            return hav
        finally:
            self._in_trial = False
            del self.raise_log[saved[0]:]
            del self.obligations[saved[1]:]
            del self.opaque_log[saved[2]:]
            (self.on_call, self.on_store, self.on_field_write, self.on_fstring, self.on_binop, self.on_builtin, self.on_return, self.on_callable) = saved[3:11]
            self.raise_paths = saved[11]

    def _match(self, w: PathWalker, s: ast.Match, st: State, ex: Exits, f: Func, depth: int) -> list[State]:
        subj = self.ev(s.subject, st, f, depth)
        out: list[State] = []
        k = self.key_of(s.subject, f) if isinstance(s.subject, (ast.Name, ast.Attribute)) else None
        rest = [st]
        exhaustive = False
        remaining: set[int] | None = None
        if isinstance(subj, Iv) and subj.bounded and subj.prec and subj.hi - subj.lo <= 64:
            remaining = set(range(int(subj.lo), int(subj.hi) + 1))
        for case in s.cases:
            pat = case.pattern
            ins = list(rest)
            alts = pat.patterns if isinstance(pat, ast.MatchOr) else [pat]
            if all(isinstance(q, ast.MatchValue) for q in alts):
                pvs = [self.ev(q.value, st, f, depth) for q in alts]
                if all(isinstance(pv, Iv) and pv.const for pv in pvs) and isinstance(subj, Iv):
                    hits = [pv for pv in pvs if subj.lo <= pv.lo <= subj.hi and (remaining is None or int(pv.lo) in remaining)]
                    if not hits:
                        ins = []
                    elif len(hits) == 1 and k is not None:
                        ins = [x.refine(k, hits[0]) for x in ins]
                    elif k is not None:
                        ins = [x.refine(k, Iv(min(h.lo for h in hits), max(h.hi for h in hits), True)) for x in ins]
                    if subj.const and hits:
                        rest = []  # a constant subject matches exactly one arm
                    if remaining is not None and case.guard is None:
                        remaining -= {int(pv.lo) for pv in pvs}
                        if not remaining:
                            rest = []  # every value of the (small, exact) subject range is taken by an earlier arm
                        elif k is not None:
                            rest = [x.refine(k, Iv(min(remaining), max(remaining), True)) for x in rest]
            elif isinstance(pat, ast.MatchAs) and pat.pattern is None and case.guard is None:
                exhaustive = True
            out += w.block(case.body, ins, ex)
        if not exhaustive:
            out += rest
        return self._cap(out)

    def simple_stmt(self, s: ast.stmt, st: State, f: Func, depth: int) -> list[State]:
        if isinstance(s, ast.Assign):
            outs: list[State] = []
            for v, s2 in self._ev_split(s.value, st, f, depth):
                cur = s2
                for t in s.targets:
                    cur = self._assign(t, v, cur, f, depth, s)
                outs.append(cur)
            return outs
        if isinstance(s, ast.AnnAssign):
            if s.value is None:
                return [st]
            return [self._assign(s.target, v, s2, f, depth, s) for v, s2 in self._ev_split(s.value, st, f, depth)]
        if isinstance(s, ast.AugAssign):
            be = ast.BinOp(left=_load(s.target), op=s.op, right=s.value)
            ast.copy_location(be, s)
            be._parent = getattr(s, "_parent", None)  # type: ignore[attr-defined]
            be.left._parent = be  # type: ignore[attr-defined]
            v = self.ev(be, st, f, depth)
            return [self._assign(s.target, v, st, f, depth, s)]
        if isinstance(s, ast.Expr):
            if isinstance(s.value, ast.Call):
                return [s2 for _, s2 in self.call(s.value, st, f, depth)]
            return [st]
        if isinstance(s, ast.Delete):
            return [st]
        # unknown statement kind: havoc stored names
        d = dict(st.d)
        for n in ast.walk(s):
            if isinstance(n, (ast.Name, ast.Attribute)) and isinstance(getattr(n, "ctx", None), ast.Store):
                k = self.key_of(n, f)
                if k in d:
                    del d[k]
        return [State(d)]

    def _ev_split(self, e: ast.expr, st: State, f: Func, depth: int) -> list[tuple[AV, State]]:
        """Evaluate keeping per-path results for calls and conditional expressions (trace partitioning)."""
        if isinstance(e, ast.Call):
            outs = self.call(e, st, f, depth)
            if self.track_eq:
                outs = [(self._with_eq_fact(e, v, s2, f), s2) for v, s2 in outs]
            return outs if outs else []
        if isinstance(e, ast.IfExp):
            outs = []
            for s2 in self.assume(e.test, st, f, True, depth):
                outs += self._ev_split(e.body, s2, f, depth)
            for s2 in self.assume(e.test, st, f, False, depth):
                outs += self._ev_split(e.orelse, s2, f, depth)
            return outs
        return [(self.ev(e, st, f, depth), st)]

    def _assign(self, t: ast.expr, v: AV, st: State, f: Func, depth: int, stmt: ast.stmt) -> State:
        if isinstance(t, (ast.Name, ast.Attribute)):
            k = self.key_of(t, f)
            if k is None:
                return st
            if isinstance(t, ast.Attribute) and (depth == 0 or f.qual in self.C.context):
                self._field_store_obligation(t, v, st, f, stmt)
            if isinstance(t, ast.Attribute) and depth == 0:
                if self.on_store is not None:
                    self.on_store(t, stmt, v, st, f)
            if isinstance(t, ast.Attribute) and self.on_field_write is not None:
                bv = self.ev(t.value, st, f, depth)
                mcls0 = self.M.mangling_class(t) or (f.cls.name if f.cls else None)
                self.on_field_write(bv, mangle(mcls0, t.attr), v, st, f, stmt)
            tm = None
            if isinstance(v, Iv):
                val = getattr(stmt, "value", None)
                if isinstance(stmt, ast.AugAssign):
                    be = ast.BinOp(left=_load(stmt.target), op=stmt.op, right=stmt.value)
                    tm = self.term(be, st, f)
                elif isinstance(stmt, (ast.Assign, ast.AnnAssign)) and val is not None and not isinstance(val, (ast.Tuple,)) and not isinstance(t, ast.Tuple):
                    if len(getattr(stmt, "targets", [t])) == 1 and (getattr(stmt, "targets", [t])[0] is t or getattr(stmt, "target", None) is t):
                        tm = self.term(val, st, f)
            return st.set(k, v, tm)
        if isinstance(t, (ast.Tuple, ast.List)):
            if isinstance(v, Tup) and len(v.items) == len(t.elts):
                for e, x in zip(t.elts, v.items):
                    st = self._assign(e, x, st, f, depth, stmt)
                return st
            for e in t.elts:
                tt = self.R.type_of(e, self.R.scope(f)) if isinstance(e, ast.Name) else None
                st = self._assign(e, self._default_for_type(tt), st, f, depth, stmt)
            return st
        return st

    def _field_store_obligation(self, t: ast.Attribute, v: AV, st: State, f: Func, stmt: ast.stmt) -> None:
        mcls = self.M.mangling_class(t) or (f.cls.name if f.cls else None)
        mattr = mangle(mcls, t.attr)
        base = self.ev(t.value, st, f, 0) if not isinstance(t.value, ast.Name) else st.get(t.value.id)
        tname = base.tname if isinstance(base, Obj) else None
        if tname is None:
            tt = self.R.type_of(t.value, self.R.scope(f))
            tname = tt if isinstance(tt, str) else None
        if tname is None:
            return
        c = self.M.cls(tname, required=False)
        if c is None:
            return
        for k in self.M.mro(c):
            b = self.C.field_inv.get((k.name, mattr))
            if b is not None:
                self.record("field", f"{k.name}.{mattr}", b, v, f, stmt, unparse(stmt)[:120])
                return

    # ---------------------------------------------------------------- entry points
    def analyse(self, f: Func, label: str | None = None, self_obj: Obj | None = None, params: dict[str, AV] | None = None) -> tuple[list[tuple[AV, State]], list[State]]:
        """Analyse f as an entry: parameters from annotations / contracts, self from type invariants."""
        self.entry_label = label or f.qual
        init: dict[str, AV] = {}
        for p in f.params:
            if p.arg == f.self_name:
                continue
            init[p.arg] = self._param_default(f, p)
        for (q, p), b in self.C.pre.items():
            if q == f.qual and p in init:
                init[p] = Iv(b[0], b[1])
        if params:
            init.update(params)
        sn = f.self_name
        if sn is not None and f.kind != "classmethod" and f.cls is not None and not self.M.is_subclass(f.cls, "type"):
            so = self_obj or Obj(f.cls.name)
            init[sn] = so
            for fk, fv in so.fields.items():
                init[f"{sn}.{fk}"] = fv
        self._inline_stack = [id(f)]
        self._inline_names = [f.qual]
        try:
            return self.run_function(f, State(init), 0)
        except Budget:
            return [], []
        finally:
            self._inline_stack = []
            self._inline_names = []
            self.entry_label = ""


def _load(t: ast.expr) -> ast.expr:
    import copy

    n = copy.copy(t)
    if hasattr(n, "ctx"):
        n.ctx = ast.Load()
    return n
