"""Year kinds: an absolute (proleptic) year and a year-of-era are different quantities (year 0 = 1 BCE, -3 = 4 BCE).

sources   <x>.year_of_era, a parameter named year_of_era            -> YOE
          <x>.year / <x>._year, a parameter named absolute_year     -> YEAR   (a parameter named `year` is not a source: the
          (era, year) overloads use that name for a year of era)
sinks     a parameter named year / absolute_year of a resolved callee, the first argument of datetime.date / datetime.datetime -> YEAR
          a parameter named year_of_era                                                                                          -> YOE
Only definite mismatches are reported (argument expressions, temporaries inlined); the era calculators, which define the relation
between the two, are exempt.
"""
from __future__ import annotations

import ast

from .core import Ctx, RuleResult
from .kit import bind_args, inline_locals, own_nodes
from .model import unparse

EXEMPT_MODULE_PARTS = ("_era_calculator.py",)


def _kind(e: ast.expr) -> str | None:
    if isinstance(e, ast.Attribute):
        if e.attr == "year_of_era":
            return "YOE"
        if e.attr in ("year", "_year"):
            return "YEAR"
    if isinstance(e, ast.Name):
        if e.id == "year_of_era":
            return "YOE"
        if e.id == "absolute_year":
            return "YEAR"
    return None


def check_year_kinds(ctx: Ctx, rr: RuleResult, files: set[str] | None = None) -> None:
    M, R = ctx.M, ctx.R
    for f in sorted(set(M.func_of_node.values()), key=lambda x: x.qual):
        if isinstance(f.node, ast.Lambda) or any(p in f.mod.rel for p in EXEMPT_MODULE_PARTS) or "_compatibility" in f.mod.rel:
            continue
        if files is not None and f.mod.rel not in files:
            continue
        for c in own_nodes(f.node):
            if not isinstance(c, ast.Call):
                continue
            pairs: list[tuple[str, ast.expr]] = []
            fn_txt = unparse(c.func)
            if fn_txt in ("datetime.date", "datetime.datetime", "date", "datetime"):
                if c.args:
                    pairs.append(("YEAR", c.args[0]))
                pairs += [("YEAR", k.value) for k in c.keywords if k.arg == "year"]
            else:
                tg, how = R.callees(c, f, count=False)
                if how == "resolved" and tg:
                    t = next((x for x in tg if x.name != "__new__"), tg[0])
                    b_ = bind_args(c, t)
                    if "era" in b_ and "year" in b_:
                        b_ = {k: v for k, v in b_.items() if k != "year"}  # (era, year) overloads: `year` is the year of that era
                    for p, a in b_.items():
                        if p in ("year", "absolute_year"):
                            pairs.append(("YEAR", a))
                        elif p == "year_of_era":
                            pairs.append(("YOE", a))
            for want, a in pairs:
                got = _kind(inline_locals(f.node, a)) if isinstance(a, (ast.Name, ast.Attribute)) else None
                if isinstance(a, ast.Name) and a.id in {p.arg for p in f.params}:
                    got = _kind(a)
                if got is None:
                    continue
                rr.inst()
                if got != want:
                    names = {"YEAR": "an absolute year", "YOE": "a year of era"}
                    rr.fail(f.qual, f"`{unparse(c)[:90]}` is given {names[got]} (`{unparse(a)}`) where it takes {names[want]}: the two differ for every year before the common era", ctx.loc(f, c))
                else:
                    rr.ok()
