"""RP discharge: reachability of `raise` statements under calling contexts, decided with the range prover (E1).

The exception-effect analysis (E4) is a may-analysis over the call graph: it says which raising constructs are connected
to an entry by calls with no handler in between.  Whether the raising *condition* can hold is decided here: a function is
interpreted abstractly from its entry (parameters from their annotations: ints unknown, strings/containers/callables
non-None, objects of their declared class, Optional parameters unknown) with callees inlined, and every `raise` statement
that a feasible abstract path reaches is logged.  A raise inside a helper whose condition depends on its arguments
(an overload-dispatch fall-through, a range check, `value is None and provider is None`) is judged in the context of its
callers: it is *rooted* only if it stays reachable when the helper is inlined into a root - a function that can be called
with arbitrary arguments (public, virtual, or passed around as a value) - along statically resolved call edges.
"""
from __future__ import annotations

import ast
from typing import Any, Callable

from .absint import Interp
from .core import Ctx
from .kit import own_nodes, sub_nodes
from .model import Func, unparse
from .oblig import get_contracts
from .textsum import apply_text_summaries


class RaiseReach:
    def __init__(self, ctx: Ctx, callsites: dict[int, list[tuple[Func, ast.Call]]], max_up: int = 4) -> None:
        self.ctx = ctx
        self.M = ctx.M
        self.callsites = callsites
        self.max_up = max_up
        self._log: dict[int, tuple[set[tuple[str, str]], set[str]]] = {}
        self.paths: dict[tuple[int, tuple[str, str]], tuple[str, ...]] = {}
        self._valrefs: set[str] | None = None
        self.steps = 0
        self.runs = 0

    # ------------------------------------------------------------------ abstract run of one function as an entry
    def log(self, f: Func) -> tuple[set[tuple[str, str]], set[str]]:
        """(feasible raises as (function qualname, raised expression text), callees that could not be inlined)."""
        k = id(f)
        if k not in self._log:
            I = Interp(self.M, self.ctx.R, get_contracts(self.ctx), budget=256, depth=6, max_nodes=6000)
            apply_text_summaries(self.ctx, I)
            try:
                I.analyse(f)
            except RecursionError:
                self._log[k] = (set(), {"<recursion>"})
                return self._log[k]
            self.steps += I.steps
            self.runs += 1
            self._log[k] = (set(I.raise_log), {q for q, _ in I.opaque_log})
            for o, pth in I.raise_paths.items():
                self.paths[(k, o)] = pth
        return self._log[k]

    # ------------------------------------------------------------------ roots
    def value_refs(self) -> set[str]:
        """Names of functions that are mentioned other than as the callee of a call (stored, passed, returned)."""
        if self._valrefs is None:
            refs: set[str] = set()
            for m in self.M.mods.values():
                for n in ast.walk(m.tree):
                    if isinstance(n, (ast.Attribute, ast.Name)) and isinstance(getattr(n, "ctx", None), ast.Load):
                        par = getattr(n, "_parent", None)
                        if isinstance(par, ast.Call) and par.func is n:
                            continue
                        if isinstance(par, ast.Attribute):
                            continue  # receiver part of a longer chain
                        refs.add(n.attr if isinstance(n, ast.Attribute) else n.id)
            self._valrefs = refs
        return self._valrefs

    def is_root(self, f: Func) -> str | None:
        """Reason why f can be entered with arguments not controlled by a static caller; None if every entry is a static call."""
        if isinstance(f.node, ast.Lambda) or f.parent is not None:
            return "closure / lambda (invoked through a stored reference)"
        nm = f.name
        if not nm.startswith("_") or (nm.startswith("__") and nm.endswith("__")):
            return "public API"
        if f.cls is not None and (self.M.overrides(f) or any(nm in k.methods and k is not f.cls for k in self.M.mro(f.cls)[1:])):
            return "virtual (overrides or is overridden)"
        plain = nm
        if plain in self.value_refs() or (f.cls is not None and nm.startswith("__") and nm[2:] in self.value_refs()):
            return "referenced as a value (callback / table entry)"
        if f.kind == "property":
            return None if self.callsites.get(id(f)) else "property"
        if not self.callsites.get(id(f)):
            return "no static caller found"
        return None

    def callers(self, f: Func) -> list[Func]:
        out: dict[int, Func] = {}
        for caller, _call in self.callsites.get(id(f), []):
            out[id(caller)] = caller
        return list(out.values())

    # ------------------------------------------------------------------ rooted feasibility
    def rooted(self, f: Func, origin: tuple[str, str], up: int = 0, seen: frozenset[int] = frozenset()) -> tuple[str, list[str]]:
        """('feasible', chain) | ('infeasible', []) | ('undecided', chain) for the raise `origin` entered through f."""
        raises, opaque = self.log(f)
        if origin not in raises:
            if origin[0] in opaque or "<recursion>" in opaque:
                return "undecided", [f.qual]
            return "infeasible", []
        why = self.is_root(f)
        if why is not None:
            return "feasible", [f"{f.qual} [{why}]"]
        if up >= self.max_up or id(f) in seen:
            return "undecided", [f.qual]
        worst = ("infeasible", [])
        for c in self.callers(f):
            st, chain = self.rooted(c, origin, up + 1, seen | {id(f)})
            if st == "feasible":
                return st, chain + [f.qual]
            if st == "undecided":
                worst = (st, chain + [f.qual])
        return worst  # type: ignore[return-value]
