"""Restricted table folder (part of E0's constant folder).

Folds class-body initialiser code that fills constant tables from literals (static "constructors", `__generate_*`
helpers): a tiny evaluator for `for ... in range(const)`, `if`, list/dict stores, integer arithmetic, bytes indexing,
`len/int/sum/range`, `base64.b64decode`, calls to helper functions defined in the same class body.  Inputs are source
literals only; it is used to obtain table extents/values and the constants that define advertised range edges - never to
sweep days or years.  Anything outside the subset makes the fold UNKNOWN (never an error).
"""
from __future__ import annotations

import ast
import base64
from typing import Any

from .model import UNKNOWN, Cls, Model, mangle


class _Unsupported(Exception):
    pass


class _Return(Exception):
    def __init__(self, v: Any) -> None:
        self.v = v


class _Break(Exception):
    pass


class _Continue(Exception):
    pass


class TableFolder:
    MAX_STEPS = 2_000_000

    def __init__(self, M: Model, cls: Cls) -> None:
        self.M, self.cls = M, cls
        self.steps = 0
        self.helpers: dict[str, ast.FunctionDef] = {}

    # ------------------------------------------------------------------ class body
    def fold_class_body(self) -> dict[str, Any]:
        env: dict[str, Any] = {}
        for st in self.cls.node.body:
            try:
                if isinstance(st, ast.FunctionDef):
                    self.helpers[st.name] = st
                    continue
                self.exec_stmt(st, env, class_level=True)
            except (_Unsupported, ArithmeticError, KeyError, IndexError, TypeError, ValueError, RecursionError):
                # drop the names this statement would have defined
                for n in ast.walk(st):
                    if isinstance(n, ast.Name) and isinstance(n.ctx, ast.Store):
                        env.pop(n.id, None)
                continue
        return env

    # ------------------------------------------------------------------ statements
    def tick(self) -> None:
        self.steps += 1
        if self.steps > self.MAX_STEPS:
            raise _Unsupported("budget")

    def exec_block(self, body: list[ast.stmt], env: dict[str, Any]) -> None:
        for s in body:
            self.exec_stmt(s, env)

    def exec_stmt(self, s: ast.stmt, env: dict[str, Any], class_level: bool = False) -> None:
        self.tick()
        if isinstance(s, ast.Assign):
            v = self.ev(s.value, env)
            for t in s.targets:
                self.assign(t, v, env)
        elif isinstance(s, ast.AnnAssign):
            if s.value is not None:
                self.assign(s.target, self.ev(s.value, env), env)
        elif isinstance(s, ast.AugAssign):
            cur = self.ev(_load(s.target), env)
            self.assign(s.target, self.binop(s.op, cur, self.ev(s.value, env)), env)
        elif isinstance(s, ast.Expr):
            if isinstance(s.value, ast.Constant):
                return
            if isinstance(s.value, (ast.Yield,)):
                env.setdefault("$yield", []).append(self.ev(s.value.value, env))
                return
            self.ev(s.value, env)
        elif isinstance(s, ast.For):
            it = self.ev(s.iter, env)
            for x in it:
                self.assign(s.target, x, env)
                try:
                    self.exec_block(s.body, env)
                except _Break:
                    break
                except _Continue:
                    continue
        elif isinstance(s, ast.While):
            while self.ev(s.test, env):
                self.tick()
                try:
                    self.exec_block(s.body, env)
                except _Break:
                    break
                except _Continue:
                    continue
        elif isinstance(s, ast.If):
            self.exec_block(s.body if self.ev(s.test, env) else s.orelse, env)
        elif isinstance(s, ast.Return):
            raise _Return(self.ev(s.value, env) if s.value is not None else None)
        elif isinstance(s, ast.Break):
            raise _Break()
        elif isinstance(s, ast.Continue):
            raise _Continue()
        elif isinstance(s, (ast.Pass, ast.Import, ast.ImportFrom)):
            return
        elif isinstance(s, ast.Delete):
            return
        else:
            raise _Unsupported(type(s).__name__)

    def assign(self, t: ast.expr, v: Any, env: dict[str, Any]) -> None:
        if isinstance(t, ast.Name):
            env[t.id] = v
        elif isinstance(t, ast.Subscript):
            c = self.ev(t.value, env)
            c[self.ev(t.slice, env)] = v
        elif isinstance(t, (ast.Tuple, ast.List)):
            vals = list(v)
            if len(vals) != len(t.elts):
                raise _Unsupported("unpack")
            for e, x in zip(t.elts, vals):
                self.assign(e, x, env)
        else:
            raise _Unsupported("assign target")

    # ------------------------------------------------------------------ expressions
    def binop(self, op: ast.operator, a: Any, b: Any) -> Any:
        if isinstance(op, ast.Add):
            return a + b
        if isinstance(op, ast.Sub):
            return a - b
        if isinstance(op, ast.Mult):
            return a * b
        if isinstance(op, ast.FloorDiv):
            return a // b
        if isinstance(op, ast.Div):
            return a / b
        if isinstance(op, ast.Mod):
            return a % b
        if isinstance(op, ast.LShift):
            return a << b
        if isinstance(op, ast.RShift):
            return a >> b
        if isinstance(op, ast.BitAnd):
            return a & b
        if isinstance(op, ast.BitOr):
            return a | b
        if isinstance(op, ast.BitXor):
            return a ^ b
        raise _Unsupported("op")

    def ev(self, e: ast.expr | None, env: dict[str, Any]) -> Any:
        self.tick()
        if e is None:
            return None
        if isinstance(e, ast.Constant):
            return e.value
        if isinstance(e, ast.Name):
            if e.id in env:
                return env[e.id]
            for nm in (e.id, mangle(self.cls.name, e.id)):
                if nm in self.helpers:
                    return ("helper", self.helpers[nm])
            v = self.M.fold(e, self.cls, self.cls.mod)
            if v is UNKNOWN:
                raise _Unsupported(f"name {e.id}")
            return v
        if isinstance(e, ast.Attribute):
            v = self.M.fold(e, self.cls, self.cls.mod)
            if v is UNKNOWN:
                raise _Unsupported("attribute")
            return v
        if isinstance(e, ast.BinOp):
            return self.binop(e.op, self.ev(e.left, env), self.ev(e.right, env))
        if isinstance(e, ast.UnaryOp):
            v = self.ev(e.operand, env)
            return {ast.USub: lambda: -v, ast.UAdd: lambda: +v, ast.Invert: lambda: ~v, ast.Not: lambda: not v}[type(e.op)]()
        if isinstance(e, ast.BoolOp):
            vals = [self.ev(x, env) for x in e.values]
            return all(vals) if isinstance(e.op, ast.And) else any(vals)
        if isinstance(e, ast.Compare):
            left = self.ev(e.left, env)
            for op, r in zip(e.ops, e.comparators):
                right = self.ev(r, env)
                ok = {ast.Lt: left < right if _num(left, right) else None, ast.LtE: left <= right if _num(left, right) else None,
                      ast.Gt: left > right if _num(left, right) else None, ast.GtE: left >= right if _num(left, right) else None,
                      ast.Eq: left == right, ast.NotEq: left != right}.get(type(op))
                if ok is None:
                    raise _Unsupported("compare")
                if not ok:
                    return False
                left = right
            return True
        if isinstance(e, ast.IfExp):
            return self.ev(e.body if self.ev(e.test, env) else e.orelse, env)
        if isinstance(e, (ast.List, ast.Tuple)):
            out: list[Any] = []
            for x in e.elts:
                if isinstance(x, ast.Starred):
                    out.extend(self.ev(x.value, env))
                else:
                    out.append(self.ev(x, env))
            return out if isinstance(e, ast.List) else tuple(out)
        if isinstance(e, ast.Dict):
            return {self.ev(k, env): self.ev(v, env) for k, v in zip(e.keys, e.values)}
        if isinstance(e, ast.Subscript):
            c = self.ev(e.value, env)
            if isinstance(e.slice, ast.Slice):
                return c[self.ev(e.slice.lower, env) if e.slice.lower else None: self.ev(e.slice.upper, env) if e.slice.upper else None]
            return c[self.ev(e.slice, env)]
        if isinstance(e, ast.ListComp) and len(e.generators) == 1 and not e.generators[0].ifs:
            g = e.generators[0]
            out = []
            sub = dict(env)
            for x in self.ev(g.iter, env):
                self.assign(g.target, x, sub)
                out.append(self.ev(e.elt, sub))
            return out
        if isinstance(e, ast.Call):
            return self.call(e, env)
        raise _Unsupported(type(e).__name__)

    def call(self, c: ast.Call, env: dict[str, Any]) -> Any:
        fx = c.func
        args: list[Any] = []
        for a in c.args:
            if isinstance(a, ast.Starred):
                args.extend(self.ev(a.value, env))
            else:
                args.append(self.ev(a, env))
        kws = {k.arg: self.ev(k.value, env) for k in c.keywords if k.arg}
        name = ast.unparse(fx)
        if name in ("len", "int", "sum", "min", "max", "abs", "list", "tuple", "sorted", "bytes", "bool", "divmod") and name not in env:
            return {"len": len, "int": int, "sum": sum, "min": min, "max": max, "abs": abs, "list": list, "tuple": tuple, "sorted": sorted, "bytes": bytes,
                    "bool": bool, "divmod": divmod}[name](*args)
        if name == "range":
            r = range(*args)
            if len(r) > 200000:
                raise _Unsupported("range too long")
            return r
        if name.endswith("b64decode") and len(args) == 1:
            return base64.b64decode(args[0])
        if isinstance(fx, ast.Attribute) and fx.attr in ("append", "extend") and isinstance(fx.value, ast.Name):
            tgt = self.ev(fx.value, env)
            getattr(tgt, fx.attr)(*args)
            return None
        f = None
        if isinstance(fx, ast.Name):
            for nm in (fx.id, mangle(self.cls.name, fx.id)):
                if nm in self.helpers:
                    f = self.helpers[nm]
        if f is None:
            raise _Unsupported(f"call {name}")
        return self.call_helper(f, args, kws)

    def call_helper(self, f: ast.FunctionDef, args: list[Any], kws: dict[str, Any]) -> Any:
        a = f.args
        env: dict[str, Any] = {}
        pos = [p.arg for p in [*a.posonlyargs, *a.args]]
        for p, v in zip(pos, args):
            env[p] = v
        if a.vararg is not None:
            env[a.vararg.arg] = tuple(args[len(pos):])
        env.update(kws)
        body = f.body
        is_gen = any(isinstance(n, (ast.Yield, ast.YieldFrom)) for n in ast.walk(f))
        try:
            self.exec_block([s for s in body if not (isinstance(s, ast.Expr) and isinstance(s.value, ast.Constant))], env)
        except _Return as r:
            if is_gen:
                return env.get("$yield", [])
            return r.v
        return env.get("$yield", []) if is_gen else None


def _num(a: Any, b: Any) -> bool:
    return isinstance(a, (int, float)) and isinstance(b, (int, float))


def _load(t: ast.expr) -> ast.expr:
    import copy

    n = copy.copy(t)
    if hasattr(n, "ctx"):
        n.ctx = ast.Load()
    return n


def fold_static_tables(M: Model, class_names: list[str]) -> dict[str, dict[str, Any]]:
    """Fold the class bodies of the given classes and seed the model's constant folder with the resulting tables."""
    out: dict[str, dict[str, Any]] = {}
    for cn in class_names:
        c = M.cls(cn, required=False)
        if c is None:
            continue
        tf = TableFolder(M, c)
        env = tf.fold_class_body()
        res = {}
        for k, v in env.items():
            if k.startswith("$"):
                continue
            mk = mangle(c.name, k)
            if isinstance(v, (int, str, bytes, list, tuple, dict)) and not isinstance(v, bool):
                M._fold_memo[(id(c), mk)] = v
                # class-level names defined by statements other than plain assignment are not in c.assigns: register them
                if mk not in c.assigns:
                    c.assigns[mk] = ast.Constant(value=None)
                res[mk] = v
        out[cn] = res
    return out
