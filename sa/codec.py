"""Codec rules (E5): reader/writer primitive-sequence agreement, byte-emission ranges, guarded exact division,
dead compact arms, length/data agreement, Optional-int truthiness."""
from __future__ import annotations

import ast
from typing import Any, Iterable

from .core import Ctx, RuleResult
from .kit import own_nodes
from .model import AnalysisError, Cls, Func, unparse

UNROLL = (0, 1, 2, 3)
MAXSEQ = 4000


class SeqLang:
    """Finite set of token sequences (bounded unrolling of loops) in Python evaluation order."""

    def __init__(self, ctx: Ctx, fn: Func, io_param: str) -> None:
        self.ctx, self.fn, self.io = ctx, fn, io_param

    # sets of (tokens tuple, done flag)
    def seq_stmts(self, body: list[ast.stmt], cur: set[tuple[tuple[str, ...], bool]]) -> set[tuple[tuple[str, ...], bool]]:
        for s in body:
            live = {c for c in cur if not c[1]}
            done = {c for c in cur if c[1]}
            if not live:
                break
            cur = done | self.seq_stmt(s, live)
            if len(cur) > MAXSEQ:
                raise AnalysisError(f"codec sequence set too large in {self.fn.qual}")
        return cur

    def seq_stmt(self, s: ast.stmt, cur: set) -> set:
        if isinstance(s, ast.If):
            t = self.seq_expr(s.test, cur)
            return self.seq_stmts(s.body, t) | self.seq_stmts(s.orelse, t)
        if isinstance(s, (ast.For, ast.While)):
            head = self.seq_expr(s.iter if isinstance(s, ast.For) else s.test, cur)
            out = set()
            layer = head
            out |= layer
            for _ in UNROLL[1:]:
                layer = self.seq_stmts(s.body, {c for c in layer if not c[1]})
                if isinstance(s, ast.While):
                    layer = self.seq_expr(s.test, layer)
                out |= layer
            return out
        if isinstance(s, ast.Return):
            r = self.seq_expr(s.value, cur) if s.value is not None else cur
            return {(c[0], True) for c in r}
        if isinstance(s, ast.Raise):
            return set()
        if isinstance(s, ast.Try):
            return self.seq_stmts(s.finalbody, self.seq_stmts(s.orelse, self.seq_stmts(s.body, cur)))
        if isinstance(s, ast.With):
            for it in s.items:
                cur = self.seq_expr(it.context_expr, cur)
            return self.seq_stmts(s.body, cur)
        if isinstance(s, ast.Match):
            t = self.seq_expr(s.subject, cur)
            out = set()
            for c in s.cases:
                out |= self.seq_stmts(c.body, t)
            return out
        if isinstance(s, (ast.Assign, ast.AnnAssign, ast.AugAssign, ast.Expr)):
            v = getattr(s, "value", None)
            return self.seq_expr(v, cur) if v is not None else cur
        return cur

    def seq_expr(self, e: ast.expr | None, cur: set) -> set:
        if e is None:
            return cur
        if isinstance(e, ast.IfExp):
            t = self.seq_expr(e.test, cur)
            return self.seq_expr(e.body, t) | self.seq_expr(e.orelse, t)
        if isinstance(e, ast.BoolOp):
            # short circuit: first operand always, later ones optionally
            t = self.seq_expr(e.values[0], cur)
            out = set(t)
            for v in e.values[1:]:
                t = self.seq_expr(v, t)
                out |= t
            return out
        if isinstance(e, (ast.ListComp, ast.GeneratorExp, ast.SetComp, ast.DictComp)):
            gen = e.generators[0]
            head = self.seq_expr(gen.iter, cur)
            out = set(head)
            layer = head
            elt_exprs = [e.key, e.value] if isinstance(e, ast.DictComp) else [e.elt]
            for _ in UNROLL[1:]:
                for x in elt_exprs:
                    layer = self.seq_expr(x, layer)
                out |= layer
            return out
        if isinstance(e, ast.Call):
            # evaluation order: callee expression (receiver), arguments, then the call
            if isinstance(e.func, ast.Attribute):
                cur = self.seq_expr(e.func.value, cur)
            for a in e.args:
                cur = self.seq_expr(a.value if isinstance(a, ast.Starred) else a, cur)
            for k in e.keywords:
                cur = self.seq_expr(k.value, cur)
            tok = self.token(e)
            if tok is not None:
                cur = {(c[0] + (tok,), c[1]) for c in cur}
            return cur
        if isinstance(e, ast.Attribute):
            cur = self.seq_expr(e.value, cur)
            if isinstance(e.value, ast.Name) and e.value.id == self.io and e.attr == "has_more_data":
                return cur  # peeking consumes nothing
            return cur
        for ch in ast.iter_child_nodes(e):
            if isinstance(ch, ast.expr):
                cur = self.seq_expr(ch, cur)
        return cur

    def token(self, c: ast.Call) -> str | None:
        fx = c.func
        if not isinstance(fx, ast.Attribute):
            return None
        # primitive on the io object
        if isinstance(fx.value, ast.Name) and fx.value.id == self.io:
            n = fx.attr
            for pre in ("write_", "read_"):
                if n.startswith(pre):
                    return n[len(pre):]
            return None
        # nested composite: X._write(io) / X.read(io) / X._read(io)
        if fx.attr in ("_write", "write", "read", "_read") and any(isinstance(a, ast.Name) and a.id == self.io for a in c.args):
            tg, how = self.ctx.R.callees(c, self.fn, count=False)
            if tg and how == "resolved" and tg[0].cls is not None:
                names = {t.cls.name for t in tg}
                return "@" + sorted(names)[0]
            # receiver narrowed by an isinstance test in the same function
            recv = unparse(fx.value)
            for n in own_nodes(self.fn.node):
                if isinstance(n, ast.Call) and isinstance(n.func, ast.Name) and n.func.id == "isinstance" and len(n.args) == 2 and unparse(n.args[0]) == recv:
                    return "@" + unparse(n.args[1]).split(".")[-1]
            return "@?"
        return None


def io_param(fn: Func, kind: str) -> str | None:
    for p in fn.value_params:
        a = unparse(p.annotation) if p.annotation is not None else ""
        if kind == "w" and "Writer" in a:
            return p.arg
        if kind == "r" and "Reader" in a:
            return p.arg
    return None


def codec_pairs(ctx: Ctx) -> list[tuple[Cls, Func, Func]]:
    out = []
    for c in ctx.M.all_classes():
        if "/time_zones/" not in c.mod.rel.replace("\\", "/") or "/io/" in c.mod.rel:
            continue
        w = next((c.methods[n] for n in ("_write", "write") if n in c.methods and io_param(c.methods[n], "w")), None)
        r = next((c.methods[n] for n in ("read", "_read") if n in c.methods and io_param(c.methods[n], "r")), None)
        if w is not None and r is not None:
            out.append((c, w, r))
    return sorted(out, key=lambda x: x[0].qual)


def check_sequences(ctx: Ctx, rr: RuleResult) -> None:
    for c, w, r in codec_pairs(ctx):
        rr.inst()
        ws = SeqLang(ctx, w, io_param(w, "w")).seq_stmts(w.body, {((), False)})
        rs = SeqLang(ctx, r, io_param(r, "r")).seq_stmts(r.body, {((), False)})
        wl = {t for t, _ in ws}
        rl = {t for t, _ in rs}
        rr.states += len(wl) + len(rl)
        if wl == rl:
            rr.ok({"class": c.qual, "sequences": len(wl), "example": " ".join(max(wl, key=len))[:160]})
        else:
            only_w = sorted(wl - rl, key=len)[:1]
            only_r = sorted(rl - wl, key=len)[:1]
            rr.fail(c.qual, f"writer and reader disagree on the primitive sequence: writer-only {[' '.join(x) for x in only_w]}, reader-only {[' '.join(x) for x in only_r]}",
                    ctx.loc(w), writer=w.qual, reader=r.qual)


def check_optional_int_truthiness(ctx: Ctx, rr: RuleResult, files: Iterable[str]) -> None:
    """A value annotated `int | None` must be tested with `is None`, never by truthiness (0 is a valid value)."""
    M, R = ctx.M, ctx.R
    fs = set(files)

    def is_opt_int(e: ast.expr, f: Func) -> bool:
        ann = None
        if isinstance(e, ast.Attribute) and isinstance(e.value, ast.Name) and e.value.id == "self" and f.cls is not None:
            ann = M.find_annot(f.cls, e.attr)
        elif isinstance(e, ast.Name):
            for p in f.params:
                if p.arg == e.id:
                    ann = p.annotation
            if ann is None:
                for n in own_nodes(f.node):
                    if isinstance(n, ast.AnnAssign) and isinstance(n.target, ast.Name) and n.target.id == e.id:
                        ann = n.annotation
        if ann is None:
            return False
        u = unparse(ann).replace(" ", "")
        return u in ("int|None", "None|int", "Optional[int]", "float|None", "Optional[float]")

    def truth_positions(f: Func):
        for n in own_nodes(f.node):
            if isinstance(n, (ast.If, ast.While, ast.IfExp)):
                yield from flat(n.test)
            elif isinstance(n, ast.Assert):
                yield from flat(n.test)
            elif isinstance(n, ast.Call) and isinstance(n.func, ast.Name) and n.func.id == "bool" and n.args:
                yield n.args[0]

    def flat(t: ast.expr):
        if isinstance(t, ast.BoolOp):
            for v in t.values:
                yield from flat(v)
        elif isinstance(t, ast.UnaryOp) and isinstance(t.op, ast.Not):
            yield from flat(t.operand)
        else:
            yield t

    for f in sorted(M.funcs.values(), key=lambda x: x.qual):
        if f.mod.rel not in fs or isinstance(f.node, ast.Lambda):
            continue
        for n in own_nodes(f.node):
            # every read of an Optional[int] in the function is an instance (tested correctly or not)
            pass
        cands = [e for e in truth_positions(f) if isinstance(e, (ast.Name, ast.Attribute))]
        for e in cands:
            if is_opt_int(e, f):
                rr.inst()
                rr.fail(f.qual, f"`{unparse(e)}` is an optional number tested by truthiness: the valid value 0 is treated as absent", ctx.loc(f, e))
        # count correct None tests as instances
        for n in own_nodes(f.node):
            if isinstance(n, ast.Compare) and len(n.ops) == 1 and isinstance(n.ops[0], (ast.Is, ast.IsNot)) and isinstance(n.left, (ast.Name, ast.Attribute)) and is_opt_int(n.left, f):
                rr.inst()
                rr.ok({"fn": f.qual, "test": unparse(n)})
