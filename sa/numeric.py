"""Numeric discipline rules (E5): float/true-division discipline and rounding-mode discipline in the integer core.

* `/` and float() on integer quantities are allowed only in documented-float APIs (the function's return annotation
  includes float), on constant-folded operands, or when the range prover bounds both operands below 2**53 (where float
  arithmetic on integers is exact enough for the subsequent truncation) - otherwise the result silently loses precision.
* `//`, `>>`, `%`, divmod floor; the value types document truncation toward zero.  On operands proved non-negative the
  two agree, so floor operators are allowed exactly there (packed-field decoders, justified by the layout rule, excepted).
"""
from __future__ import annotations

import ast
from typing import Any, Iterable

from .absint import AV, ConstV, Iv, Obj, State, join, num
from .core import Ctx, RuleResult
from .kit import own_nodes
from .model import AnalysisError, Func, unparse
from .oblig import get_contracts, interp, time_period_field_instances

F53 = 2**53
ROUNDING_HELPERS = {"_csharp_compatibility._csharp_modulo", "_csharp_compatibility.__int_overflow", "_csharp_compatibility._int32_overflow", "_csharp_compatibility._int64_overflow"}

# float-valued calls that are reviewed and exempt, one symbol wide, with the reason
FLOAT_CALL_EXEMPT = {
    ("Offset.from_timedelta", "total_seconds"): "result is range-checked to +/-18h and truncated to whole seconds; whole-second values below 2**53 microseconds are exact in float",
}


def _returns_float(ctx: Ctx, f: Func) -> bool:
    if isinstance(f.node, ast.Lambda):
        return False
    r = unparse(f.node.returns) if f.node.returns is not None else ""
    return "float" in r


# true divisions truncated back to an integer that are exact for a reviewed reason: (function, expression) -> reason
FLOAT_DIV_REVIEWED = {
    ("_TimePeriodField.__init__", "PyodaConstants.NANOSECONDS_PER_DAY / unit_nanoseconds"): "every unit divides a day exactly and the quotient is below 2**53: R10.13 checks unit x units-per-day == one day for each of the seven instances",
}


def check_numeric(ctx: Ctx, rr: RuleResult, modules: Iterable[str], decoder_exempt: set[str] | None = None) -> None:
    M = ctx.M
    mods = set(modules)
    missing = [m for m in mods if m not in M.mods]
    if missing:
        raise AnalysisError(f"anchor modules missing: {missing}")
    decoder_exempt = decoder_exempt or set()
    sites: dict[tuple[str, int, int], dict[str, Any]] = {}

    def note(fn: Func, node: ast.AST, kind: str, a: AV | None, b: AV | None, ctxlabel: str) -> None:
        if fn.mod.rel not in mods:
            return
        k = (fn.mod.rel, node.lineno, node.col_offset)
        s = sites.setdefault(k, {"fn": fn, "node": node, "kind": kind, "a": None, "b": None, "contexts": set()})
        xa = num(a) if isinstance(a, (Iv, ConstV)) else (Iv(-float("inf"), float("inf"), False) if a is not None else None)
        xb = num(b) if isinstance(b, (Iv, ConstV)) else (Iv(-float("inf"), float("inf"), False) if b is not None else None)
        s["a"] = xa if s["a"] is None else (join(s["a"], xa) if xa is not None else s["a"])
        s["b"] = xb if s["b"] is None else (join(s["b"], xb) if xb is not None else s["b"])
        s["contexts"].add(ctxlabel)

    entries: list[tuple[Func, str, Obj | None]] = []
    tpf_methods = set()
    for f in M.funcs.values():
        if f.mod.rel not in mods or isinstance(f.node, ast.Lambda):
            continue
        if f.qual in ROUNDING_HELPERS:
            continue  # the helpers that implement the rounding modes themselves
        if f.cls is not None and f.cls.name == "_TimePeriodField":
            tpf_methods.add(f)
            continue
        if not any((isinstance(n, ast.BinOp) and isinstance(n.op, (ast.Div, ast.FloorDiv, ast.RShift, ast.Mod))) or (isinstance(n, ast.Call) and isinstance(n.func, ast.Name) and n.func.id in ("float", "divmod")) for n in own_nodes(f.node)):
            continue
        entries.append((f, f.qual, None))
    if tpf_methods:
        # per unit instance (constructor arguments are constants at the seven construction sites)
        meta = M.cls("_TimePeriodFieldMeta")
        for name, pf in sorted(meta.methods.items()):
            if pf.kind == "property":
                entries.append((pf, f"_TimePeriodField.__init__[unit={name.lstrip('_')}]", None))
        for uname, inst in time_period_field_instances(ctx):
            for f in tpf_methods:
                if f.name != "__init__":
                    entries.append((f, f"{f.qual}[unit={uname.lstrip('_')}]", inst))
    for f, label, inst in entries:
        I = interp(ctx)
        I.hooks_all_depths = f.cls is not None and f.cls.name == "_TimePeriodFieldMeta"

        def on_binop(e: ast.BinOp, a: AV, b: AV, st: State, fn: Func, _label: str = label) -> None:
            if isinstance(e.op, (ast.Div, ast.FloorDiv, ast.RShift, ast.Mod)):
                if isinstance(a, ConstV) and isinstance(a.v, (str, bytes)):
                    return
                note(fn, e, type(e.op).__name__, a, b, _label)

        def on_call(c: ast.Call, callee: Func, bound: dict, st: State, fn: Func) -> None:
            pass

        def on_builtin(c: ast.Call, args: list[AV], st: State, fn: Func, _label: str = label) -> None:
            n = c.func.id  # type: ignore[union-attr]
            if n == "float" and args:
                note(fn, c, "float", args[0], None, _label)
            elif n == "divmod" and len(args) == 2:
                note(fn, c, "divmod", args[0], args[1], _label)

        I.on_binop = on_binop
        I.on_builtin = on_builtin
        I.analyse(f, label=label, self_obj=inst)
        rr.states += I.steps
    # float-producing library calls on exact quantities (timedelta.total_seconds(), math.*): syntactic inventory
    for f, label, inst in entries:
        pass
    for f in sorted((x for x in M.funcs.values() if x.mod.rel in mods and not isinstance(x.node, ast.Lambda)), key=lambda x: x.qual):
        for n in own_nodes(f.node):
            if isinstance(n, ast.Call) and isinstance(n.func, ast.Attribute):
                is_ts = n.func.attr == "total_seconds" and not n.args
                is_math = isinstance(n.func.value, ast.Name) and n.func.value.id == "math" and n.func.attr not in ("isnan", "isinf", "isfinite")
                if is_ts or is_math:
                    k = (f.mod.rel, n.lineno, n.col_offset)
                    sites[k] = {"fn": f, "node": n, "kind": "floatcall", "a": None, "b": None, "contexts": {f.qual}}
    for k in sorted(sites):
        s = sites[k]
        fn, node, kind, a, b = s["fn"], s["node"], s["kind"], s["a"], s["b"]
        rr.inst()
        where = fn.qual
        txt = unparse(node)[:80]
        if kind == "floatcall":
            if _returns_float(ctx, fn):
                rr.ok({"site": where, "op": txt, "why": "documented float API"})
            elif (where, node.func.attr) in FLOAT_CALL_EXEMPT:
                rr.ok({"site": where, "op": txt, "why": FLOAT_CALL_EXEMPT[(where, node.func.attr)]})
            else:
                rr.fail(where, f"float-valued library call in an exact integer conversion: `{txt}` (precision is lost beyond 2**53 units)", f"{fn.mod.rel}:{node.lineno}", rule_clause="float discipline")
            continue
        if kind in ("Div", "float"):
            # a float-returning function may still have an integer-valued arm: a quotient that is turned back into an integer
            # (int(...), a from_* factory) is an exact-integer computation whatever the other arms return
            back_to_int = False
            q_ = getattr(node, "_parent", None)
            while q_ is not None and not isinstance(q_, ast.stmt):
                if isinstance(q_, ast.Call) and q_.func is not node and (unparse(q_.func) in ("int", "round", "math.trunc", "math.floor", "math.ceil") or unparse(q_.func).split(".")[-1].startswith(("from_", "_from_"))):
                    back_to_int = True
                q_ = getattr(q_, "_parent", None)
            if _returns_float(ctx, fn) and not back_to_int:
                rr.ok({"site": where, "op": txt, "why": "documented float API (return annotation includes float)"})
                continue
            ok_a = a is not None and a.within(-F53, F53)
            ok_b = kind == "float" or (b is not None and b.within(-F53, F53))
            truncated = kind == "float"
            p_ = getattr(node, "_parent", None)
            while p_ is not None and not isinstance(p_, ast.stmt):
                if isinstance(p_, ast.Call) and unparse(p_.func) in ("int", "math.trunc", "math.floor", "math.ceil"):
                    truncated = True
                p_ = getattr(p_, "_parent", None)
            if ok_a and ok_b and not truncated:
                rr.fail(where, f"true division on an integer quantity whose float result is used as it is: `{txt}` (no int()/trunc around it: the value is rounded, not truncated, by whatever consumes it)", f"{fn.mod.rel}:{node.lineno}", rule_clause="float discipline")
            elif ok_a and ok_b and kind == "Div" and truncated and (where, txt) in FLOAT_DIV_REVIEWED:
                rr.ok({"site": where, "op": txt, "why": FLOAT_DIV_REVIEWED[(where, txt)]})
            elif ok_a and ok_b and kind == "Div" and truncated:
                rr.fail(where, f"true division whose quotient is truncated back to an integer: `{txt}` - the exact quotient of two integers is generally not a float (0.0157 is not), so int() of the rounded value is one too small for a share of the inputs even when both operands are small; use integer arithmetic", f"{fn.mod.rel}:{node.lineno}", rule_clause="float discipline")
            elif ok_a and ok_b:
                rr.ok({"site": where, "op": txt, "why": f"operands bounded below 2**53: {a} / {b}"})
            else:
                rr.fail(where, f"float arithmetic on an integer quantity not bounded below 2**53: `{txt}` (operands {a}, {b})", f"{fn.mod.rel}:{node.lineno}", rule_clause="float discipline")
        else:
            if where in decoder_exempt:
                rr.ok({"site": where, "op": txt, "why": "packed-field decoder (layout rule)"})
                continue
            if a is not None and a.lo >= 0:
                rr.ok({"site": where, "op": txt, "why": f"dividend proved non-negative: {a} (floor == truncation)"})
            else:
                rr.fail(where, f"flooring operator on a possibly negative quantity where truncation toward zero is documented: `{txt}` (dividend {a})", f"{fn.mod.rel}:{node.lineno}", rule_clause="rounding-mode discipline")


# ------------------------------------------------------------------------------------------- wrap-around helpers


WRAP_RANGE = {"_int32_overflow": (-(2**31), 2**31 - 1), "_int64_overflow": (-(2**63), 2**63 - 1)}

# wrap sites reviewed as intended two's-complement reinterpretation (not arithmetic), one line of reason each
WRAP_REVIEWED = {
    "_DateTimeZoneReader.__read_int64": "reassembles a signed 64-bit value from two unsigned 32-bit halves read from the stream: the wrap *is* the decoding",
    "_DateTimeZoneReader.read_int64": "same decoding (public name)",
    "_YearMonthDayCalendar._year": "sign-extends the packed year field held in the top bits of a 32-bit word: the wrap is the decoding (layout decided by R01.1)",
}


def check_wraps(ctx: Ctx, rr: RuleResult, modules: Iterable[str] | None = None) -> None:
    """`_int32_overflow` / `_int64_overflow` reproduce C#'s silent wrap-around.  In a port that computes with unbounded integers they
    are harmless only where the argument is already inside the type's range (the wrap is the identity); on a quantity that can
    exceed it they turn an exact result into a wrong one of the opposite sign instead of an error.  Every call site is analysed in
    its function (parameters unconstrained, class invariants from the contract table) and the argument's interval must lie inside
    the range."""
    M = ctx.M
    mods = set(modules) if modules is not None else None
    for f in sorted(set(M.func_of_node.values()), key=lambda x: x.qual):
        if isinstance(f.node, ast.Lambda) or "_compatibility" in f.mod.rel or f.mod.rel.endswith("_csharp_compatibility.py"):
            continue
        if mods is not None and f.mod.rel not in mods:
            continue
        sites = [n for n in own_nodes(f.node) if isinstance(n, ast.Call) and isinstance(n.func, ast.Name) and n.func.id in WRAP_RANGE]
        if not sites:
            continue
        seen: dict[int, list[AV]] = {}
        I = interp(ctx)

        def on_builtin(c: ast.Call, args: list, st: State, fn: Func, _seen: dict = seen) -> None:
            if fn is f and isinstance(c.func, ast.Name) and c.func.id in WRAP_RANGE and args:
                _seen.setdefault(id(c), []).append(args[0])

        I.on_builtin = on_builtin
        try:
            I.analyse(f, label=f.qual)
        except Exception:  # noqa: BLE001
            pass
        rr.states += I.steps
        for c in sites:
            rr.inst()
            lo, hi = WRAP_RANGE[c.func.id]  # type: ignore[union-attr]
            vals = seen.get(id(c), [])
            if f.qual in WRAP_REVIEWED:
                rr.ok({"site": f.qual, "why": WRAP_REVIEWED[f.qual]})
            elif vals and all(isinstance(v, (Iv, ConstV)) and num(v).within(lo, hi) for v in vals):
                rr.ok({"site": f.qual, "op": unparse(c)[:70], "argument": repr(vals[0])})
            else:
                shown = repr(vals[0]) if vals else "not reached by the analysis"
                rr.fail(f.qual, f"`{unparse(c)[:80]}` wraps a quantity not proved inside the {c.func.id[1:6]} range ({shown}): an exact result silently becomes a wrong one", f"{f.mod.rel}:{c.lineno}", rule_clause="wrap discipline")  # type: ignore[union-attr]
