"""Numeric discipline rules (E5): float/true-division discipline and rounding-mode discipline in the integer core.

* `/` and float() on integer quantities are allowed only in documented-float APIs (the function's return annotation
  includes float), on constant-folded operands, or when the range prover bounds both operands below 2**53 (where float
  arithmetic on integers is exact enough for the subsequent truncation) - otherwise the result silently loses precision.
* `//`, `>>`, `%`, divmod floor; the value types document truncation toward zero.  On operands proved non-negative the
  two agree, so floor operators are allowed exactly there (packed-field decoders, justified by the layout rule, excepted).
"""
from __future__ import annotations

import ast
from typing import Any, Iterable

from .absint import AV, ConstV, Iv, Obj, State, join, num
from .core import Ctx, RuleResult
from .kit import own_nodes
from .model import AnalysisError, Func, unparse
from .oblig import get_contracts, interp, time_period_field_instances

F53 = 2**53
ROUNDING_HELPERS = {"_csharp_compatibility._csharp_modulo", "_csharp_compatibility.__int_overflow", "_csharp_compatibility._int32_overflow", "_csharp_compatibility._int64_overflow"}

# float-valued calls that are reviewed and exempt, one symbol wide, with the reason
FLOAT_CALL_EXEMPT = {
    ("Offset.from_timedelta", "total_seconds"): "result is range-checked to +/-18h and truncated to whole seconds; whole-second values below 2**53 microseconds are exact in float",
}


def _returns_float(ctx: Ctx, f: Func) -> bool:
    if isinstance(f.node, ast.Lambda):
        return False
    r = unparse(f.node.returns) if f.node.returns is not None else ""
    return "float" in r


def check_numeric(ctx: Ctx, rr: RuleResult, modules: Iterable[str], decoder_exempt: set[str] | None = None) -> None:
    M = ctx.M
    mods = set(modules)
    missing = [m for m in mods if m not in M.mods]
    if missing:
        raise AnalysisError(f"anchor modules missing: {missing}")
    decoder_exempt = decoder_exempt or set()
    sites: dict[tuple[str, int, int], dict[str, Any]] = {}

    def note(fn: Func, node: ast.AST, kind: str, a: AV | None, b: AV | None, ctxlabel: str) -> None:
        if fn.mod.rel not in mods:
            return
        k = (fn.mod.rel, node.lineno, node.col_offset)
        s = sites.setdefault(k, {"fn": fn, "node": node, "kind": kind, "a": None, "b": None, "contexts": set()})
        xa = num(a) if isinstance(a, (Iv, ConstV)) else (Iv(-float("inf"), float("inf"), False) if a is not None else None)
        xb = num(b) if isinstance(b, (Iv, ConstV)) else (Iv(-float("inf"), float("inf"), False) if b is not None else None)
        s["a"] = xa if s["a"] is None else (join(s["a"], xa) if xa is not None else s["a"])
        s["b"] = xb if s["b"] is None else (join(s["b"], xb) if xb is not None else s["b"])
        s["contexts"].add(ctxlabel)

    entries: list[tuple[Func, str, Obj | None]] = []
    tpf_methods = set()
    for f in M.funcs.values():
        if f.mod.rel not in mods or isinstance(f.node, ast.Lambda):
            continue
        if f.qual in ROUNDING_HELPERS:
            continue  # the helpers that implement the rounding modes themselves
        if f.cls is not None and f.cls.name == "_TimePeriodField":
            tpf_methods.add(f)
            continue
        if not any((isinstance(n, ast.BinOp) and isinstance(n.op, (ast.Div, ast.FloorDiv, ast.RShift, ast.Mod))) or (isinstance(n, ast.Call) and isinstance(n.func, ast.Name) and n.func.id in ("float", "divmod")) for n in own_nodes(f.node)):
            continue
        entries.append((f, f.qual, None))
    if tpf_methods:
        # per unit instance (constructor arguments are constants at the seven construction sites)
        meta = M.cls("_TimePeriodFieldMeta")
        for name, pf in sorted(meta.methods.items()):
            if pf.kind == "property":
                entries.append((pf, f"_TimePeriodField.__init__[unit={name.lstrip('_')}]", None))
        for uname, inst in time_period_field_instances(ctx):
            for f in tpf_methods:
                if f.name != "__init__":
                    entries.append((f, f"{f.qual}[unit={uname.lstrip('_')}]", inst))
    for f, label, inst in entries:
        I = interp(ctx)
        I.hooks_all_depths = f.cls is not None and f.cls.name == "_TimePeriodFieldMeta"

        def on_binop(e: ast.BinOp, a: AV, b: AV, st: State, fn: Func, _label: str = label) -> None:
            if isinstance(e.op, (ast.Div, ast.FloorDiv, ast.RShift, ast.Mod)):
                if isinstance(a, ConstV) and isinstance(a.v, (str, bytes)):
                    return
                note(fn, e, type(e.op).__name__, a, b, _label)

        def on_call(c: ast.Call, callee: Func, bound: dict, st: State, fn: Func) -> None:
            pass

        def on_builtin(c: ast.Call, args: list[AV], st: State, fn: Func, _label: str = label) -> None:
            n = c.func.id  # type: ignore[union-attr]
            if n == "float" and args:
                note(fn, c, "float", args[0], None, _label)
            elif n == "divmod" and len(args) == 2:
                note(fn, c, "divmod", args[0], args[1], _label)

        I.on_binop = on_binop
        I.on_builtin = on_builtin
        I.analyse(f, label=label, self_obj=inst)
        rr.states += I.steps
    # float-producing library calls on exact quantities (timedelta.total_seconds(), math.*): syntactic inventory
    for f, label, inst in entries:
        pass
    for f in sorted((x for x in M.funcs.values() if x.mod.rel in mods and not isinstance(x.node, ast.Lambda)), key=lambda x: x.qual):
        for n in own_nodes(f.node):
            if isinstance(n, ast.Call) and isinstance(n.func, ast.Attribute):
                is_ts = n.func.attr == "total_seconds" and not n.args
                is_math = isinstance(n.func.value, ast.Name) and n.func.value.id == "math" and n.func.attr not in ("isnan", "isinf", "isfinite")
                if is_ts or is_math:
                    k = (f.mod.rel, n.lineno, n.col_offset)
                    sites[k] = {"fn": f, "node": n, "kind": "floatcall", "a": None, "b": None, "contexts": {f.qual}}
    for k in sorted(sites):
        s = sites[k]
        fn, node, kind, a, b = s["fn"], s["node"], s["kind"], s["a"], s["b"]
        rr.inst()
        where = fn.qual
        txt = unparse(node)[:80]
        if kind == "floatcall":
            if _returns_float(ctx, fn):
                rr.ok({"site": where, "op": txt, "why": "documented float API"})
            elif (where, node.func.attr) in FLOAT_CALL_EXEMPT:
                rr.ok({"site": where, "op": txt, "why": FLOAT_CALL_EXEMPT[(where, node.func.attr)]})
            else:
                rr.fail(where, f"float-valued library call in an exact integer conversion: `{txt}` (precision is lost beyond 2**53 units)", f"{fn.mod.rel}:{node.lineno}", rule_clause="float discipline")
            continue
        if kind in ("Div", "float"):
            if _returns_float(ctx, fn):
                rr.ok({"site": where, "op": txt, "why": "documented float API (return annotation includes float)"})
                continue
            ok_a = a is not None and a.within(-F53, F53)
            ok_b = kind == "float" or (b is not None and b.within(-F53, F53))
            truncated = kind == "float"
            p_ = getattr(node, "_parent", None)
            while p_ is not None and not isinstance(p_, ast.stmt):
                if isinstance(p_, ast.Call) and unparse(p_.func) in ("int", "math.trunc", "math.floor", "math.ceil"):
                    truncated = True
                p_ = getattr(p_, "_parent", None)
            if ok_a and ok_b and not truncated:
                rr.fail(where, f"true division on an integer quantity whose float result is used as it is: `{txt}` (no int()/trunc around it: the value is rounded, not truncated, by whatever consumes it)", f"{fn.mod.rel}:{node.lineno}", rule_clause="float discipline")
            elif ok_a and ok_b:
                rr.ok({"site": where, "op": txt, "why": f"operands bounded below 2**53: {a} / {b}"})
            else:
                rr.fail(where, f"float arithmetic on an integer quantity not bounded below 2**53: `{txt}` (operands {a}, {b})", f"{fn.mod.rel}:{node.lineno}", rule_clause="float discipline")
        else:
            if where in decoder_exempt:
                rr.ok({"site": where, "op": txt, "why": "packed-field decoder (layout rule)"})
                continue
            if a is not None and a.lo >= 0:
                rr.ok({"site": where, "op": txt, "why": f"dividend proved non-negative: {a} (floor == truncation)"})
            else:
                rr.fail(where, f"flooring operator on a possibly negative quantity where truncation toward zero is documented: `{txt}` (dividend {a})", f"{fn.mod.rel}:{node.lineno}", rule_clause="rounding-mode discipline")
