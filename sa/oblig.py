"""Obligation sweeps for the range prover: enumerate entries, run, group verdicts by stable key, apply the must-prove policy."""
from __future__ import annotations

import ast
import json
import os
from dataclasses import dataclass, field
from typing import Any, Callable, Iterable

from . import contracts as contracts_mod
from .absint import AV, Contracts, Interp, Iv, Obj, Obligation, State
from .core import Ctx, RuleResult
from .kit import own_nodes
from .model import AnalysisError, Func, mangle

MUST_PROVE_FILE = os.path.join(os.path.dirname(os.path.abspath(__file__)), "must_prove.json")


def get_contracts(ctx: Ctx) -> Contracts:
    if "contracts" not in ctx.cache:
        ctx.cache["contracts"] = contracts_mod.build(ctx.M)
    return ctx.cache["contracts"]


def interp(ctx: Ctx, C: Contracts | None = None) -> Interp:
    budget, depth = (64, 4) if ctx.tier == "quick" else (512, 6)
    return Interp(ctx.M, ctx.R, C or get_contracts(ctx), budget=budget, depth=depth)


def must_prove() -> dict[str, list[str]]:
    if not os.path.exists(MUST_PROVE_FILE):
        return {}
    return json.load(open(MUST_PROVE_FILE))


@dataclass
class Group:
    key: str
    obligations: list[Obligation] = field(default_factory=list)

    @property
    def status(self) -> str:
        sts = {o.status for o in self.obligations}
        if "REFUTED" in sts:
            return "REFUTED"
        if "UNDECIDED" in sts:
            return "UNDECIDED"
        return "PROVED"

    @property
    def worst(self) -> Obligation:
        for s in ("REFUTED", "UNDECIDED", "PROVED"):
            for o in self.obligations:
                if o.status == s:
                    return o
        return self.obligations[0]


def direct_entries(ctx: Ctx, C: Contracts, targets_pre: set[str], targets_field: set[str], skip: Callable[[Func], bool] | None = None) -> list[Func]:
    """Functions that directly call a contract-bearing callee or store a contract-bearing field."""
    out = []
    for f in ctx.M.funcs.values():
        if isinstance(f.node, ast.Lambda) or "_compatibility" in f.mod.rel:
            continue
        if skip and skip(f):
            continue
        hit = False
        for n in own_nodes(f.node):
            if isinstance(n, ast.Call) and (targets_pre or C.context):
                tg, how = ctx.R.callees(n, f, count=False)
                if how == "resolved" and any(t.qual in targets_pre or t.qual in C.context for t in tg):
                    hit = True
                    break
            if isinstance(n, ast.Attribute) and isinstance(n.ctx, ast.Store) and targets_field:
                if mangle(ctx.M.mangling_class(n), n.attr) in targets_field:
                    hit = True
                    break
        if hit:
            out.append(f)
    # callers of name-private helpers that are entries themselves: the helper's obligations are decided in the caller's context
    helpers = {id(g): g for g in out if g.name.startswith("__") and not g.name.endswith("__") and g.cls is not None}
    if helpers:
        have = {id(g) for g in out}
        for f in ctx.M.funcs.values():
            if id(f) in have or isinstance(f.node, ast.Lambda) or f.cls is None or "_compatibility" in f.mod.rel or (skip and skip(f)):
                continue
            for n in own_nodes(f.node):
                if isinstance(n, ast.Call):
                    tg, how = ctx.R.callees(n, f, count=False)
                    if how == "resolved" and any(id(t) in helpers and t.cls is f.cls for t in tg):
                        out.append(f)
                        have.add(id(f))
                        break
    return sorted(out, key=lambda f: f.qual)


def sweep(ctx: Ctx, entries: Iterable[tuple[Func, str | None, Obj | None, dict[str, AV] | None]], C: Contracts | None = None,
          want: Callable[[Obligation], bool] | None = None) -> tuple[dict[str, Group], int]:
    groups: dict[str, Group] = {}
    steps = 0
    for f, label, self_obj, params in entries:
        I = interp(ctx, C)
        I.analyse(f, label=label, self_obj=self_obj, params=params)
        steps += I.steps
        for o in I.obligations:
            if want and not want(o):
                continue
            groups.setdefault(o.key, Group(o.key)).obligations.append(o)
    return groups, steps


def decide(rr: RuleResult, groups: dict[str, Group], rule_id: str, expected_undecided: dict[str, str] | None = None, ctx: Ctx | None = None) -> None:
    """Policy.  REFUTED => violation.  A key in the must-prove set (discharged on the reviewed tree) that is not PROVED
    => violation (fail closed).  Every obligation of an entry function whose reviewed obligations were all discharged must
    be PROVED, including obligations that did not exist on the reviewed tree (a construction moved to an unchecked path).
    Keys in expected_undecided are reported as not decided.  Other unknown keys: PROVED ok, UNDECIDED listed, never alarmed.
    A must-prove key whose entry function no longer exists is an analysis error (vanished anchor)."""
    mp = set(must_prove().get(rule_id, []))
    exp = expected_undecided or {}
    clean_entries = {k.split("=>")[0] for k in mp} - {k.split("=>")[0] for k in exp}
    for key in sorted(groups):
        g = groups[key]
        rr.inst()
        w = g.worst
        st = g.status
        entry = key.split("=>")[0]
        if st == "PROVED":
            rr.ok({"obligation": key, "value": repr(w.value), "bounds": [w.bounds[0], w.bounds[1]], "sites": len(g.obligations)})
        elif st == "REFUTED":
            rr.fail(entry, f"{w.target} can be {w.value}, outside [{w.bounds[0]}, {w.bounds[1]}]", w.loc, expr=w.expr, verdict="REFUTED (all operands tracked precisely)")
        elif key in exp:
            rr.undecided.append(f"{key}: {w.value} ({exp[key]})")
        elif key in mp:
            rr.fail(entry, f"{w.target} no longer proved inside [{w.bounds[0]}, {w.bounds[1]}] (computed {w.value})", w.loc, expr=w.expr,
                    verdict="obligation was discharged on the reviewed tree and is not discharged now")
        elif entry in clean_entries:
            rr.fail(entry, f"{w.target} not proved inside [{w.bounds[0]}, {w.bounds[1]}] (computed {w.value})", w.loc, expr=w.expr,
                    verdict="new undischarged obligation in a function whose obligations were all discharged on the reviewed tree")
        else:
            rr.undecided.append(f"{key}: {w.value} (not decided: relational arithmetic or unknown operand)")
    entries_now = {k.split("=>")[0] for k in groups}
    gone = sorted({k.split("=>")[0] for k in mp} - entries_now)
    if gone:
        pass
    if gone:
        raise AnalysisError(f"{rule_id}: functions with must-prove obligations no longer produce any obligation (anchor moved or enumerator broken): {gone[:5]}")


# ------------------------------------------------------------------------------------------- the global sweep (cached per run)


def time_period_field_instances(ctx: Ctx) -> list[tuple[str, Obj]]:
    """Evaluate every `_TimePeriodField(<const>)` construction in the metaclass properties to an abstract instance."""
    M = ctx.M
    meta = M.cls("_TimePeriodFieldMeta")
    out = []
    for name, f in sorted(meta.methods.items()):
        if f.kind != "property":
            continue
        I = interp(ctx)
        rets, _ = I.analyse(f)
        for v, _st in rets:
            if isinstance(v, Obj) and v.tname == "_TimePeriodField" and v.fields:
                out.append((name, v))
    if len(out) < 7:
        raise AnalysisError(f"only {len(out)} _TimePeriodField unit instances could be evaluated (7 confirmed)")
    return out


def global_sweep(ctx: Ctx) -> dict[str, Group]:
    if "sweep" in ctx.cache:
        return ctx.cache["sweep"]
    C = get_contracts(ctx)
    pre_funcs = {q for (q, _p) in C.pre}
    inv_fields = {f for (_c, f) in C.field_inv}
    entries: list[tuple[Func, str | None, Obj | None, dict[str, AV] | None]] = []
    for f in direct_entries(ctx, C, pre_funcs, inv_fields):
        if f.cls is not None and f.cls.name == "_TimePeriodField" and f.name != "__init__":
            continue  # analysed per unit instance below
        if f.qual in C.context:
            continue  # decided per calling context
        entries.append((f, None, None, None))
    tpf = ctx.M.cls("_TimePeriodField")
    for uname, inst in time_period_field_instances(ctx):
        for mname in ("_add_local_time", "_add_local_time_with_extra_days"):
            f = ctx.M.find_method(tpf, mname)
            if f is None:
                raise AnalysisError(f"_TimePeriodField.{mname} missing")
            entries.append((f, f"{f.qual}[unit={uname.lstrip('_')}]", inst, None))
    groups, steps = sweep(ctx, entries, C)
    ctx.cache["sweep"] = groups
    ctx.cache["sweep_steps"] = steps
    ctx.cache["sweep_entries"] = len(entries)
    return groups


def select(groups: dict[str, Group], targets: Iterable[str]) -> dict[str, Group]:
    ts = tuple(targets)
    return {k: g for k, g in groups.items() if any(k.split("=>")[1].startswith(t) for t in ts)}
