"""Reviewed contract table for the range prover (DESIGN.md Appendix A).

Every entry is assume/guarantee: an invariant may be *assumed* on reads only because the prover has the obligation to
establish it at every store / construction site enumerated by the program model; a precondition of an underscore-private
helper only because it is an obligation at every resolved call site.  Bounds are folded from /repo's own constants on
every run (never frozen numbers).
"""
from __future__ import annotations

from .absint import Contracts
from .model import UNKNOWN, AnalysisError, Model, mangle


def _c(M: Model, cname: str, attr: str) -> int:
    v = M.fold_class_const(cname, attr)
    if v is UNKNOWN or not isinstance(v, int):
        v = M.fold_class_const(cname, mangle(cname, attr))
    if v is UNKNOWN or not isinstance(v, int):
        raise AnalysisError(f"constant {cname}.{attr} cannot be folded")
    return v


def build(M: Model) -> Contracts:
    NPD = _c(M, "PyodaConstants", "NANOSECONDS_PER_DAY")
    NPS = _c(M, "PyodaConstants", "NANOSECONDS_PER_SECOND")
    MIN_S = _c(M, "Offset", "__MIN_SECONDS")
    MAX_S = _c(M, "Offset", "__MAX_SECONDS")
    DMIN = _c(M, "Duration", "_MIN_DAYS")
    DMAX = _c(M, "Duration", "_MAX_DAYS")
    C = Contracts()
    day = (0, NPD - 1)
    # ---- type invariants (reads assume, stores/constructions must establish)
    C.field_inv[("LocalTime", mangle("LocalTime", "__nanoseconds"))] = day  # nanosecond-of-day in [0, 24h)
    C.field_inv[("Duration", mangle("Duration", "__nano_of_day"))] = day  # floor-day normal form
    C.field_inv[("Duration", mangle("Duration", "__days"))] = (DMIN, DMAX)  # established by the _ctor guard / factories' range checks
    C.field_inv[("Offset", mangle("Offset", "__seconds"))] = (MIN_S, MAX_S)  # +/-18h, guard inside Offset._ctor
    # packed OffsetTime: decoders are justified by the bit-layout rule R11.3 (mask covers [0, NPD-1], shift = mask width)
    C.field_inv[("OffsetTime", "nanosecond_of_day")] = day
    C.field_inv[("OffsetTime", "_offset_seconds")] = (MIN_S, MAX_S)
    C.field_inv[("OffsetTime", "_offset_nanoseconds")] = (MIN_S * NPS, MAX_S * NPS)
    # ---- preconditions of private constructors / trusted helpers (obligation at every call site)
    C.pre[("LocalTime._ctor", "nanoseconds")] = day
    C.pre[("Duration._ctor", "nano_of_day")] = day
    C.pre[("Duration.__ctor", "nano_of_day")] = day  # trusted arm (days=, nano_of_day=, no_validation=)
    C.pre[("Duration._minus_small_nanoseconds", "small_nanos")] = (-NPD, NPD)  # "trusted to be <= 24h in magnitude"
    C.pre[("LocalTime._from_hour_minute_second_nanosecond_trusted", "hour")] = (0, 23)
    C.pre[("LocalTime._from_hour_minute_second_nanosecond_trusted", "minute")] = (0, 59)
    C.pre[("LocalTime._from_hour_minute_second_nanosecond_trusted", "second")] = (0, 59)
    C.pre[("LocalTime._from_hour_minute_second_nanosecond_trusted", "nanosecond_within_second")] = (0, NPS - 1)
    C.pre[("Instant._ctor", "nano_of_day")] = day
    C.pre[("_LocalInstant._ctor", "nano_of_day")] = day
    C.pre[("OffsetTime._ctor", "nanosecond_of_day")] = day
    C.pre[("OffsetTime._ctor", "nanosecond_of_day_zero_offset")] = day
    C.pre[("OffsetTime._ctor", "offset_seconds")] = (MIN_S, MAX_S)
    # Duration.__ctor multiplexes two C# constructors; its stores are decided in the context of each calling factory
    C.context.add("Duration.__ctor")
    return C
