"""E2 - order-domain evaluator: exhaustive abstract evaluation of comparison code over all weak orderings of its key atoms.

Inputs of the analysed methods are opaque ordered atoms (absint.AtomV): only comparisons between atoms and the sign of a
difference are meaningful, everything else "escapes" and makes the case UNDECIDED.  For every ordering the methods' ASTs are
evaluated by the abstract interpreter (nothing is executed) and the definite result is compared with the specification table.
"""
from __future__ import annotations

import ast
import itertools
from dataclasses import dataclass, field
from typing import Any, Callable

from .absint import AV, AtomV, ConstV, Interp, Iv, NoneV, Obj, State, Top
from .core import Ctx, RuleResult
from .model import AnalysisError, Func, mangle
from .oblig import get_contracts, interp

REL = {-1: "<", 0: "=", 1: ">"}


@dataclass
class Model:
    """Abstract instance of a value type: object + its key atoms in significance order (groups share one rank)."""

    obj: Obj
    keys: list[list[str]]  # each entry: atom names that carry the same component


def m(cls: str, field_: str) -> str:
    return mangle(cls, field_)


def build(tname: str, p: str, cal: int = 0) -> Model:
    """Abstract instance named p of value type tname.  cal selects the calendar identity (for refusal rules)."""
    A = AtomV
    if tname == "LocalTime":
        return Model(Obj("LocalTime", {m("LocalTime", "__nanoseconds"): A(p + ".ns")}), [[p + ".ns"]])
    if tname == "Offset":
        return Model(Obj("Offset", {m("Offset", "__seconds"): A(p + ".s")}), [[p + ".s"]])
    if tname == "Duration":
        return Model(Obj("Duration", {m("Duration", "__days"): A(p + ".days"), m("Duration", "__nano_of_day"): A(p + ".nod")}), [[p + ".days"], [p + ".nod"]])
    if tname in ("Instant", "_LocalInstant"):
        d = build("Duration", p + ".dur")
        return Model(Obj(tname, {m(tname, "__duration"): d.obj}), d.keys)
    if tname == "_YearMonthDay":
        return Model(Obj("_YearMonthDay", {m("_YearMonthDay", "__value"): A(p + ".ymd")}), [[p + ".ymd"]])
    if tname == "_YearMonthDayCalendar":
        return Model(Obj("_YearMonthDayCalendar", {m("_YearMonthDayCalendar", "__value"): A(p + ".ymdc")}), [[p + ".ymdc"]])
    if tname == "AnnualDate":
        y = build("_YearMonthDay", p)
        return Model(Obj("AnnualDate", {m("AnnualDate", "__value"): y.obj}), y.keys)
    calobj = Obj("CalendarSystem", {"$id": ConstV(f"calendar#{cal}")})
    if tname == "LocalDate":
        y = build("_YearMonthDay", p)
        yc = build("_YearMonthDayCalendar", p)
        yc.obj.fields["_calendar_ordinal"] = Iv(cal, cal)
        o = Obj("LocalDate", {m("LocalDate", "__year_month_day_calendar"): yc.obj, "_year_month_day": y.obj, "calendar": calobj,
                              m("LocalDate", "__calendar_ordinal"): Iv(cal, cal)})
        return Model(o, [[p + ".ymd", p + ".ymdc"]])
    if tname == "YearMonth":
        y = build("_YearMonthDay", p)
        yc = build("_YearMonthDayCalendar", p)
        yc.obj.fields["_calendar_ordinal"] = Iv(cal, cal)
        o = Obj("YearMonth", {m("YearMonth", "__start_of_month"): yc.obj, m("YearMonth", "__year_month_day"): y.obj, "calendar": calobj,
                              m("YearMonth", "__calendar_ordinal"): Iv(cal, cal)})
        return Model(o, [[p + ".ymd", p + ".ymdc"]])
    if tname == "LocalDateTime":
        d = build("LocalDate", p + ".date", cal)
        t = build("LocalTime", p + ".time")
        o = Obj("LocalDateTime", {m("LocalDateTime", "__date"): d.obj, m("LocalDateTime", "__time"): t.obj, "calendar": calobj})
        return Model(o, d.keys + t.keys)
    raise AnalysisError(f"no order model for type {tname}")


def orderings(n: int):
    """All component-wise relations of two n-component keys."""
    return itertools.product((-1, 0, 1), repeat=n)


def lex(rel: tuple[int, ...]) -> int:
    for r in rel:
        if r != 0:
            return r
    return 0


def ranks_for(a: Model, b: Model, rel: tuple[int, ...]) -> dict[str, int]:
    rk: dict[str, int] = {}
    for ka, kb, r in zip(a.keys, b.keys, rel):
        for n in ka:
            rk[n] = 1
        for n in kb:
            rk[n] = 1 + (-r)  # r=-1 (a<b): b rank 2 ; r=0: 1 ; r=1: 0
    return rk


@dataclass
class Outcome:
    values: list[AV]
    raised: list[str]
    escaped: list[str]

    @property
    def definite_bool(self) -> bool | None:
        if self.escaped or len(self.values) == 0:
            return None
        bs = set()
        for v in self.values:
            if isinstance(v, Iv) and v.const:
                bs.add(v.lo != 0)
            else:
                return None
        return bs.pop() if len(bs) == 1 else None

    @property
    def sign(self) -> int | None:
        if self.escaped or not self.values:
            return None
        sg = set()
        for v in self.values:
            if not isinstance(v, Iv):
                return None
            if v.hi < 0:
                sg.add(-1)
            elif v.lo > 0:
                sg.add(1)
            elif v.lo == 0 and v.hi == 0:
                sg.add(0)
            else:
                return None
        return sg.pop() if len(sg) == 1 else None


def run(ctx: Ctx, f: Func, self_obj: Obj | None, params: dict[str, AV], ranks: dict[str, int], stubs: dict | None = None) -> Outcome:
    I = interp(ctx)
    I.max_depth = 8
    I.ranks = ranks
    if stubs:
        I.stubs = stubs
    rets, falls = I.analyse(f, self_obj=self_obj, params=params)
    vals = [v for v, _ in rets] + [NoneV() for _ in falls]
    return Outcome(vals, [r[1] for r in I.raise_log], list(I.escaped))


SPEC_BOOL: dict[str, Callable[[int], bool]] = {
    "__eq__": lambda r: r == 0,
    "equals": lambda r: r == 0,
    "__ne__": lambda r: r != 0,
    "__lt__": lambda r: r < 0,
    "__le__": lambda r: r <= 0,
    "__gt__": lambda r: r > 0,
    "__ge__": lambda r: r >= 0,
}


def calendar_compare_stub(ranks_ref: dict[str, int]):
    """Assume/guarantee summary of CalendarSystem._compare(lhs, rhs): the sign of the calendar order of two _YearMonthDay
    values (established separately: base `compare` by the order domain on the packed value, the Hebrew override by R12.1b)."""

    def stub(args, kws, recv):
        l, r = (args + [None, None])[:2]
        try:
            la = l.fields[mangle("_YearMonthDay", "__value")].name
            ra = r.fields[mangle("_YearMonthDay", "__value")].name
            # the calendar order is carried by the logical atom <p>.date when present (packed order may differ, e.g. Hebrew scriptural)
            x = ranks_ref.get(la[:-4] + ".date", ranks_ref[la]) if la.endswith(".ymd") else ranks_ref[la]
            y = ranks_ref.get(ra[:-4] + ".date", ranks_ref[ra]) if ra.endswith(".ymd") else ranks_ref[ra]
        except (AttributeError, KeyError):
            return Iv(-float("inf"), float("inf"), False)
        return Iv(-float("inf"), -1) if x < y else (Iv(0, 0) if x == y else Iv(1, float("inf")))

    return stub


def check_total_order(ctx: Ctx, rr: RuleResult, tname: str, methods: list[str], minmax: bool = True) -> None:
    """R12.1 for one type: every comparison method against the lexicographic relation of the key, on every component-wise ordering."""
    M = ctx.M
    c = M.cls(tname)
    a, b = build(tname, "a"), build(tname, "b")
    n = len(a.keys)
    _orig_run = run

    def run_(ctx_, f_, so_, params_, ranks_, stubs=None):
        st = dict(stubs or {})
        if tname in ("LocalDate", "YearMonth", "LocalDateTime"):
            st["CalendarSystem._compare"] = calendar_compare_stub(ranks_)
            out1 = _orig_run(ctx_, f_, so_, params_, ranks_, st)
            # second configuration: the packed year/month/day order is the reverse of the calendar order (as for months of the
            # Hebrew scriptural numbering); code that compares packed values directly gives a different answer here
            rk2 = dict(ranks_)
            for k_, v_ in ranks_.items():
                if k_.endswith(".ymd"):
                    rk2[k_[:-4] + ".date"] = v_
                    rk2[k_] = 2 - v_
            st2 = dict(st)
            st2["CalendarSystem._compare"] = calendar_compare_stub(rk2)
            out2 = _orig_run(ctx_, f_, so_, params_, rk2, st2)
            if out1.escaped or out2.escaped:
                return Outcome(out1.values + out2.values, out1.raised + out2.raised, out1.escaped + out2.escaped)
            if [repr(v) for v in out1.values] != [repr(v) for v in out2.values] and (out1.definite_bool != out2.definite_bool or out1.sign != out2.sign):
                return Outcome(out1.values + out2.values, out1.raised, ["result depends on the packed value order, not on the calendar order"])
            return out1
        return _orig_run(ctx_, f_, so_, params_, ranks_, st)

    for name in methods:
        f = M.find_method(c, name)
        if f is None:
            raise AnalysisError(f"{tname}.{name} missing")
        pname = f.value_params[0].arg
        rr.inst()
        bad = None
        undec = None
        for rel in orderings(n):
            r = lex(rel)
            out = run_(ctx, f, a.obj, {pname: b.obj}, ranks_for(a, b, rel))
            rr.states += 1
            label = ",".join(REL[x] for x in rel)
            if name == "compare_to":
                sg = out.sign
                if sg is None:
                    undec = (label, out)
                elif sg != r:
                    bad = (label, f"sign {REL[sg]}", f"sign {REL[r]}")
                    break
            else:
                bv = out.definite_bool
                want = SPEC_BOOL[name](r)
                if bv is None:
                    undec = (label, out)
                elif bv != want:
                    bad = (label, str(bv), str(want))
                    break
        if bad:
            rr.fail(f.qual, f"for key relation ({bad[0]}) evaluates to {bad[1]}, the total order requires {bad[2]}", ctx.loc(f))
        elif undec:
            rr.fail(f.qual, f"comparison leaves the order fragment for key relation ({undec[0]}): {(undec[1].escaped or [repr(undec[1].values)])[0]}", ctx.loc(f),
                    verdict="UNDECIDED where the reviewed tree was decided")
        else:
            rr.ok({"method": f.qual, "orderings": 3**n, "spec": name})
    if minmax:
        for name in ("max", "min"):
            f = M.find_method(c, name)
            if f is None:
                continue
            rr.inst()
            ps = [p.arg for p in f.value_params]
            bad = None
            for rel in orderings(n):
                r = lex(rel)
                out = run_(ctx, f, None, {ps[0]: a.obj, ps[1]: b.obj}, ranks_for(a, b, rel))
                rr.states += 1
                label = ",".join(REL[x] for x in rel)
                if out.escaped or not out.values:
                    bad = (label, f"undecided: {(out.escaped or ['no returning path'])[0]}")
                    break
                for v in out.values:
                    is_a, is_b = v == a.obj, v == b.obj
                    if not (is_a or is_b):
                        bad = (label, f"returns neither operand: {v}")
                        break
                    greater_ok = (r >= 0 and is_a) or (r <= 0 and is_b) if name == "max" else (r <= 0 and is_a) or (r >= 0 and is_b)
                    if not greater_ok:
                        bad = (label, f"returns the {'smaller' if name == 'max' else 'greater'} operand")
                        break
                if bad:
                    break
            if bad:
                rr.fail(f.qual, f"for key relation ({bad[0]}): {bad[1]}", ctx.loc(f))
            else:
                rr.ok({"method": f.qual, "orderings": 3**n, "spec": name})


def weak_orderings(n: int):
    """All weak orderings of n labelled points as dense rank tuples."""
    seen = set()
    for t in itertools.product(range(n), repeat=n):
        vals = sorted(set(t))
        dense = tuple(vals.index(x) for x in t)
        if dense not in seen:
            seen.add(dense)
            yield dense


def local_date_model(name: str, cal: int = 0, pos: AV | None = None) -> Obj:
    """LocalDate with separate atoms for the packed value (<name>.ymd / .ymdc) and the calendar order (<name>.date, used by the
    CalendarSystem._compare summary), optionally with a day-number position on an abstract line."""
    m_ = build("LocalDate", name, cal)
    if pos is not None:
        m_.obj.fields["_days_since_epoch"] = pos
    return m_.obj


def date_ranks(names_ranks: dict[str, int], reverse_packed: bool = False) -> dict[str, int]:
    top = max(names_ranks.values()) if names_ranks else 0
    rk: dict[str, int] = {}
    for n, r in names_ranks.items():
        rk[n + ".date"] = r
        rk[n + ".ymdc"] = r
        rk[n + ".ymd"] = (top - r) if reverse_packed else r
    return rk
