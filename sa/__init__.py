"""Static-analysis machinery for pyoda-time properties C01-C20 (pure stdlib, ast-based).

Nothing in /repo is imported or executed by this package; sources are parsed with `ast`.
"""
