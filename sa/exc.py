"""E4 - exception-effect analysis.

For a function f, ``escapes(f)`` is the set of (exception class, origin site) pairs that may propagate out of a call of f:

* explicit ``raise`` statements (class resolved from the raised expression; a bare ``raise`` re-raises what its handler caught),
* calls: the escapes of every resolved callee (virtual dispatch fans out to overrides), with indirect calls through
  parameters, closure variables, local variables and handler tables resolved to the functions that flow there,
* implicit calls (operators, properties, ``__getitem__`` ... of repository types),
* modelled library operations that raise on data (subscripts, ``Enum(value)``, ``int(str)``, ``bytes.decode``,
  ``struct.unpack``, ``next``, division, ``str.format`` ...), each dischargeable by a dominating guard,

minus everything caught by an enclosing ``try``/``except`` on the way out (subclass-aware).  Summaries are computed as a
least fixpoint over the resolved call graph, so recursion is handled.  The analysis is a *may* analysis: an escape that is
reported is a path in the call graph from the entry to a raising construct with no handler on the way; whether the
raising condition is satisfiable is decided separately (guards below, or the range prover for value-type constructors).
"""
from __future__ import annotations

import ast
import builtins
from dataclasses import dataclass, field
from typing import Any, Callable, Iterable

from .core import Ctx
from .kit import bind_args, own_nodes, sub_nodes
from .model import Cls, Func, Model, UNKNOWN, mangle, unparse
from .resolve import Resolver, get_resolver

# --------------------------------------------------------------------------------------------- class hierarchy

EXTERNAL_BASES = {
    "struct.error": "Exception",
    "decimal.InvalidOperation": "ArithmeticError",
    "icu.ICUError": "Exception",
    "ICUError": "Exception",
    "RecursionError": "RuntimeError",
}


class ExcHierarchy:
    def __init__(self, M: Model) -> None:
        self.M = M

    def bases(self, name: str) -> list[str]:
        """Linearised base names of exception class `name` (itself first)."""
        out: list[str] = []
        seen: set[str] = set()
        work = [name]
        while work:
            n = work.pop(0)
            if n in seen:
                continue
            seen.add(n)
            out.append(n)
            c = self.M.cls(n, required=False) if n.isidentifier() else None
            if c is not None:
                work.extend(c.base_names)
                continue
            if n in EXTERNAL_BASES:
                work.append(EXTERNAL_BASES[n])
                continue
            b = getattr(builtins, n, None)
            if isinstance(b, type) and issubclass(b, BaseException):
                work.extend(k.__name__ for k in b.__mro__[1:] if k is not object)
        return out

    def is_sub(self, name: str, base: str) -> bool:
        return base in self.bases(name)


# --------------------------------------------------------------------------------------------- escapes


@dataclass(frozen=True)
class Esc:
    exc: str  # exception class name
    fn: str  # qualname of the function containing the raising construct
    what: str  # normalised text of the raising construct
    loc: str
    kind: str  # raise | op | reraise
    cond: tuple[str, ...] = ()  # parametric discharge: ("nonzero", param) ...
    chain: tuple[str, ...] = ()  # call chain from the summarised function down to `fn`

    @property
    def key(self) -> tuple[str, str, str, tuple[str, ...]]:
        return (self.exc, self.fn, self.what, self.cond)

    def via(self, caller: str) -> "Esc":
        ch = (caller, *self.chain)
        if len(ch) > 12:
            ch = (*ch[:6], "...", *ch[-5:])
        return Esc(self.exc, self.fn, self.what, self.loc, self.kind, self.cond, ch)


# --------------------------------------------------------------------------------------------- guards (facts)

_NEG = {ast.Lt: ast.GtE, ast.LtE: ast.Gt, ast.Gt: ast.LtE, ast.GtE: ast.Lt, ast.Eq: ast.NotEq, ast.NotEq: ast.Eq,
        ast.Is: ast.IsNot, ast.IsNot: ast.Is, ast.In: ast.NotIn, ast.NotIn: ast.In}
_SYM = {ast.Lt: "<", ast.LtE: "<=", ast.Gt: ">", ast.GtE: ">=", ast.Eq: "==", ast.NotEq: "!=", ast.Is: "is", ast.IsNot: "is not",
        ast.In: "in", ast.NotIn: "not in"}
_FLIP = {"<": ">", "<=": ">=", ">": "<", ">=": "<=", "==": "==", "!=": "!="}


def atoms(test: ast.expr, positive: bool) -> set[tuple[str, str, str]]:
    """Atomic facts implied by `test` being true (positive) / false: (lhs, op, rhs) with op incl. 'truthy'/'falsy'."""
    out: set[tuple[str, str, str]] = set()
    if isinstance(test, ast.UnaryOp) and isinstance(test.op, ast.Not):
        return atoms(test.operand, not positive)
    if isinstance(test, ast.BoolOp):
        conj = isinstance(test.op, ast.And)
        if conj == positive:  # (a and b) true / (a or b) false: every operand contributes
            for v in test.values:
                out |= atoms(v, positive)
        return out
    if isinstance(test, ast.NamedExpr):
        out |= atoms(test.target, positive)
        out |= atoms(test.value, positive)
        return out
    if isinstance(test, ast.Compare):
        if len(test.ops) == 1:
            op = type(test.ops[0])
            if not positive:
                op = _NEG.get(op, op)
            sym = _SYM.get(op)
            if sym:
                lhs, rhs = unparse(test.left), unparse(test.comparators[0])
                out.add((lhs, sym, rhs))
                if sym in _FLIP:
                    out.add((rhs, _FLIP[sym], lhs))
        elif positive:
            left = test.left
            for op, right in zip(test.ops, test.comparators):
                sym = _SYM.get(type(op))
                if sym:
                    out.add((unparse(left), sym, unparse(right)))
                    if sym in _FLIP:
                        out.add((unparse(right), _FLIP[sym], unparse(left)))
                left = right
        return out
    out.add((unparse(test), "truthy" if positive else "falsy", ""))
    return out


def _terminates(body: list[ast.stmt]) -> bool:
    """Every path through the block leaves it (raise / return / break / continue)."""
    if not body:
        return False
    last = body[-1]
    if isinstance(last, (ast.Raise, ast.Return, ast.Break, ast.Continue)):
        return True
    if isinstance(last, ast.If):
        return _terminates(last.body) and _terminates(last.orelse)
    if isinstance(last, (ast.With, ast.AsyncWith)):
        return _terminates(last.body)
    if isinstance(last, ast.Try):
        if last.finalbody and _terminates(last.finalbody):
            return True
        return _terminates(last.body if not last.orelse else last.orelse) and all(_terminates(h.body) for h in last.handlers)
    if isinstance(last, ast.While) and isinstance(last.test, ast.Constant) and last.test.value is True:
        return not any(isinstance(n, ast.Break) for n in sub_nodes(last))
    if isinstance(last, ast.Match):
        has_default = any(isinstance(c.pattern, ast.MatchAs) and c.pattern.pattern is None and c.guard is None for c in last.cases)
        return has_default and all(_terminates(c.body) for c in last.cases)
    return False


def _stores_name(stmt: ast.AST, names: set[str]) -> bool:
    for n in sub_nodes(stmt):
        if isinstance(n, ast.Name) and isinstance(n.ctx, (ast.Store, ast.Del)) and n.id in names:
            return True
        if isinstance(n, ast.Attribute) and isinstance(n.ctx, (ast.Store, ast.Del)) and unparse(n) in names:
            return True
    return False


def facts_at(node: ast.AST) -> set[tuple[str, str, str]]:
    """Facts that hold whenever `node` executes: tests of enclosing if/while/ternary arms and of earlier sibling
    ``if c: <leave>`` statements (so ¬c holds afterwards).  A fact is dropped when a name it mentions is re-assigned
    between the guard and the node (in the same block)."""
    facts: set[tuple[str, str, str]] = set()
    pending: list[list[ast.expr]] = []  # tests known false that are conjunctions: not (a1 and ... and an)
    cur: ast.AST = node
    while True:
        par = getattr(cur, "_parent", None)
        if par is None or isinstance(par, (ast.FunctionDef, ast.AsyncFunctionDef, ast.Lambda, ast.ClassDef)) and cur is not node:
            if par is None or isinstance(par, (ast.FunctionDef, ast.AsyncFunctionDef, ast.Lambda)):
                pass
        if par is None:
            break
        if isinstance(par, (ast.If, ast.While)):
            if any(cur is s for s in par.body):
                facts |= atoms(par.test, True)
            elif isinstance(par, ast.If) and any(cur is s for s in par.orelse):
                facts |= atoms(par.test, False)
                if isinstance(par.test, ast.BoolOp) and isinstance(par.test.op, ast.And):
                    pending.append(list(par.test.values))
        elif isinstance(par, ast.IfExp):
            if cur is par.body:
                facts |= atoms(par.test, True)
            elif cur is par.orelse:
                facts |= atoms(par.test, False)
        elif isinstance(par, ast.BoolOp):
            idx = next((i for i, v in enumerate(par.values) if v is cur), 0)
            for v in par.values[:idx]:
                facts |= atoms(v, isinstance(par.op, ast.And))
        elif isinstance(par, ast.comprehension) and cur in par.ifs:
            pass
        elif isinstance(par, (ast.ListComp, ast.SetComp, ast.GeneratorExp, ast.DictComp)):
            for g in par.generators:
                if cur is not g:
                    for c in g.ifs:
                        facts |= atoms(c, True)
        # earlier siblings in the same block
        for fld in ("body", "orelse", "finalbody"):
            blk = getattr(par, fld, None)
            if isinstance(blk, list) and any(cur is s for s in blk):
                idx = next(i for i, s in enumerate(blk) if s is cur)
                new: set[tuple[str, str, str]] = set()
                for j, s in enumerate(blk[:idx]):
                    if isinstance(s, ast.If) and _terminates(s.body) and not s.orelse:
                        cand = atoms(s.test, False)
                    elif isinstance(s, ast.If) and s.orelse and _terminates(s.orelse) and not _terminates(s.body):
                        cand = atoms(s.test, True)
                    elif isinstance(s, ast.Assert):
                        cand = atoms(s.test, True)
                    else:
                        continue
                    for f in cand:
                        names = {f[0], f[2]} | {n.id for e in (f[0], f[2]) if e for n in ast.walk(ast.parse(e, mode="eval")) if isinstance(n, ast.Name)}
                        if not any(_stores_name(t, names) for t in blk[j + 1:idx]):
                            new.add(f)
                facts |= new
        if isinstance(par, (ast.FunctionDef, ast.AsyncFunctionDef, ast.Lambda)):
            break
        cur = par
    # unit resolution: not (a1 and ... and an) together with all but one ai known true gives the negation of the remaining one
    changed = True
    while changed and pending:
        changed = False
        for conj in pending:
            unknown = [v for v in conj if not (atoms(v, True) and atoms(v, True) <= facts)]
            if len(unknown) == 1:
                new = atoms(unknown[0], False)
                if not new <= facts:
                    facts |= new
                    changed = True
    return facts


# --------------------------------------------------------------------------------------------- the analysis


@dataclass
class ExcConfig:
    # symbols whose raises are excluded (documented behaviour outside the property's domain): {qualname: reason}
    excluded_funcs: dict[str, str] = field(default_factory=dict)
    # exception classes never reported (e.g. AssertionError from debug asserts): {class: reason}
    ignored_classes: dict[str, str] = field(default_factory=dict)
    # rule-specific resolution of indirect call sites: (call, fn) -> list[Func] | None
    indirect: Callable[[ast.Call, Func], list[Func] | None] | None = None
    # rule-specific discharge: (exc class, node, fn) -> reason | None
    discharge: Callable[[str, ast.AST, Func], str | None] | None = None
    model_subscripts: bool = True
    model_division: bool = True
    # functions whose own try/except handlers are ignored (inventory of what a conversion boundary catches)
    transparent_try: set[str] = field(default_factory=set)
    # raising constructs excluded individually: {(function qualname, exception class): reason}
    excluded_origins: dict[tuple[str, str], str] = field(default_factory=dict)
    # functions treated as atomic with a given escape set (reviewed summaries): {qualname: (classes...)}
    summaries: dict[str, tuple[str, ...]] = field(default_factory=dict)


class ExcAnalysis:
    def __init__(self, ctx: Ctx, cfg: ExcConfig | None = None) -> None:
        self.ctx = ctx
        self.M: Model = ctx.M
        self.R: Resolver = get_resolver(ctx.M)
        self.H = ExcHierarchy(ctx.M)
        self.cfg = cfg or ExcConfig()
        self.summ: dict[int, dict[tuple, Esc]] = {}
        self.funcs: dict[int, Func] = {}
        self.unresolved: dict[tuple[str, str], str] = {}
        self.discharged: dict[tuple[str, str, str], str] = {}  # (exc, fn, what) -> reason
        self.ops_seen = 0
        self.calls_seen = 0
        self._callsites: dict[int, list[tuple[Func, ast.Call]]] | None = None
        self._dirty = True
        self._in_progress: set[int] = set()
        self.edges: dict[int, set[int]] = {}
        self.redges: dict[int, set[int]] = {}
        self._dirty_set: set[int] = set()
        self._tg_cache: dict[int, tuple[list[Func] | None, str]] = {}
        self._imp_cache: dict[int, list[tuple[ast.AST, Func]]] = {}

    # ------------------------------------------------------------------ public
    def escapes(self, fn: Func) -> list[Esc]:
        """Least fixpoint of the escape summaries of everything reachable from fn (worklist over the call graph)."""
        self._reach(fn)
        rounds = 0
        while self._dirty_set:
            rounds += 1
            if rounds > 200000:
                raise RuntimeError("exception summaries did not converge")
            k = self._dirty_set.pop()
            f = self.funcs[k]
            before = len(self.funcs)
            new = self._analyse(f)
            old = self.summ.get(k, {})
            if set(new) - set(old):
                merged = dict(old)
                for kk, v in new.items():
                    merged.setdefault(kk, v)
                self.summ[k] = merged
                for caller in self.redges.get(k, ()):  # callers must be re-analysed
                    self._dirty_set.add(caller)
            if len(self.funcs) > before:
                # functions discovered late (indirect targets resolved during this round)
                for k2 in list(self.funcs)[before:]:
                    self._dirty_set.add(k2)
                self._dirty_set.add(k)
        return sorted(self.summ.get(id(fn), {}).values(), key=lambda e: (e.exc, e.fn, e.what))

    def reachable(self, fn: Func) -> list[Func]:
        seen = {id(fn): fn}
        work = [fn]
        while work:
            f = work.pop()
            for g in self.edges.get(id(f), ()):  # filled by _analyse
                if g not in seen and g in self.funcs:
                    seen[g] = self.funcs[g]
                    work.append(self.funcs[g])
        return list(seen.values())

    # ------------------------------------------------------------------ reachability (discovers functions)
    def _reach(self, fn: Func) -> None:
        work = [fn]
        while work:
            f = work.pop()
            if id(f) in self.funcs:
                continue
            self.funcs[id(f)] = f
            self.summ.setdefault(id(f), {})
            self._dirty_set.add(id(f))
            self._analyse(f, discover=work)

    # ------------------------------------------------------------------ per function
    def _analyse(self, fn: Func, discover: list[Func] | None = None) -> dict[tuple, Esc]:
        if fn.qual in self.cfg.summaries:
            return {(c, fn.qual, "<summary>", ()): Esc(c, fn.qual, "<reviewed summary>", fn.loc, "raise") for c in self.cfg.summaries[fn.qual]}
        if fn.qual in self.cfg.excluded_funcs:
            return {}
        self._discover = discover
        self._fn = fn
        self.edges.setdefault(id(fn), set())
        raw = self._block(fn.body, fn, caught=None)
        out: dict[tuple, Esc] = {}
        for e in raw:
            if e.exc in self.cfg.ignored_classes or (e.fn, e.exc) in self.cfg.excluded_origins:
                continue
            out.setdefault(e.key, e)
        return out

    def _callee(self, g: Func) -> dict[tuple, Esc]:
        self.edges[id(self._fn)].add(id(g))
        self.redges.setdefault(id(g), set()).add(id(self._fn))
        if id(g) not in self.funcs:
            if self._discover is not None:
                self._discover.append(g)
            else:
                # discovered late (new indirect target): register, will be analysed next round
                self.funcs[id(g)] = g
                self.summ.setdefault(id(g), {})
            return {}
        return self.summ.get(id(g), {})

    # ------------------------------------------------------------------ statements
    def _block(self, body: list[ast.stmt], fn: Func, caught: list[Esc] | None) -> list[Esc]:
        out: list[Esc] = []
        for s in body:
            out.extend(self._stmt(s, fn, caught))
        return out

    def _stmt(self, s: ast.stmt, fn: Func, caught: list[Esc] | None) -> list[Esc]:
        out: list[Esc] = []
        if isinstance(s, (ast.FunctionDef, ast.AsyncFunctionDef, ast.ClassDef, ast.Import, ast.ImportFrom, ast.Pass, ast.Break, ast.Continue, ast.Global, ast.Nonlocal)):
            return out
        if isinstance(s, ast.Raise):
            if s.exc is None:
                out.extend(Esc(e.exc, e.fn, e.what, e.loc, e.kind, e.cond, e.chain) for e in (caught or []))
                return out
            out.extend(self._expr(s.exc, fn))
            if s.cause is not None:
                out.extend(self._expr(s.cause, fn))
            if isinstance(s.exc, ast.Name) and caught is not None and self._is_handler_var(s.exc):
                out.extend(caught)
                return out
            cls = self._raised_class(s.exc, fn)
            out.append(Esc(cls, fn.qual, "raise " + unparse(s.exc)[:120], self.ctx.loc(fn, s), "raise"))
            return out
        if isinstance(s, ast.Try) and fn.qual in self.cfg.transparent_try:
            return self._block(s.body, fn, caught) + self._block(s.orelse, fn, caught) + self._block(s.finalbody, fn, caught)
        if isinstance(s, ast.Try):
            body_raw = self._block(s.body, fn, caught)
            per_handler: list[list[Esc]] = [[] for _ in s.handlers]
            for e in body_raw:
                for i, h in enumerate(s.handlers):
                    names = self._handler_classes(h)
                    if names is None or any(self.H.is_sub(e.exc, n) for n in names):
                        per_handler[i].append(e)
                        break
                else:
                    out.append(e)
            for h, got in zip(s.handlers, per_handler):
                out.extend(self._block(h.body, fn, got))
            out.extend(self._block(s.orelse, fn, caught))
            out.extend(self._block(s.finalbody, fn, caught))
            return out
        if isinstance(s, ast.If):
            out.extend(self._expr(s.test, fn))
            out.extend(self._block(s.body, fn, caught))
            out.extend(self._block(s.orelse, fn, caught))
            return out
        if isinstance(s, ast.While):
            out.extend(self._expr(s.test, fn))
            out.extend(self._block(s.body, fn, caught))
            out.extend(self._block(s.orelse, fn, caught))
            return out
        if isinstance(s, (ast.For, ast.AsyncFor)):
            out.extend(self._expr(s.iter, fn))
            out.extend(self._iter_protocol(s.iter, fn))
            out.extend(self._block(s.body, fn, caught))
            out.extend(self._block(s.orelse, fn, caught))
            return out
        if isinstance(s, (ast.With, ast.AsyncWith)):
            for it in s.items:
                out.extend(self._expr(it.context_expr, fn))
                t = self.R.type_of(it.context_expr, self.R.scope(fn))
                if isinstance(t, str):
                    c = self.M.cls(t, required=False)
                    if c is not None:
                        for nm in ("__enter__", "__exit__"):
                            f = self.M.find_method(c, nm)
                            if f is not None:
                                out.extend(e.via(fn.qual) for e in self._callee(f).values())
            out.extend(self._block(s.body, fn, caught))
            return out
        if isinstance(s, ast.Match):
            out.extend(self._expr(s.subject, fn))
            for c in s.cases:
                for n in ast.walk(c.pattern):
                    if isinstance(n, ast.MatchValue):
                        out.extend(self._expr(n.value, fn))
                if c.guard is not None:
                    out.extend(self._expr(c.guard, fn))
                out.extend(self._block(c.body, fn, caught))
            return out
        if isinstance(s, ast.Assert):
            out.extend(self._expr(s.test, fn))
            out.append(Esc("AssertionError", fn.qual, "assert " + unparse(s.test)[:100], self.ctx.loc(fn, s), "raise"))
            return out
        if isinstance(s, ast.Delete):
            for t in s.targets:
                if isinstance(t, ast.Subscript):
                    out.extend(self._expr(t.value, fn))
                    out.extend(self._subscript(t, fn))
            return out
        # simple statements: every expression inside
        if isinstance(s, ast.AnnAssign):
            for ch in (s.target, s.value):
                if ch is not None:
                    out.extend(self._expr(ch, fn))
            return out
        for ch in ast.iter_child_nodes(s):
            if isinstance(ch, ast.expr):
                out.extend(self._expr(ch, fn))
        return out

    def _is_handler_var(self, name: ast.Name) -> bool:
        cur: ast.AST | None = name
        while cur is not None:
            if isinstance(cur, ast.ExceptHandler):
                return cur.name == name.id
            cur = getattr(cur, "_parent", None)
        return False

    def _handler_classes(self, h: ast.ExceptHandler) -> list[str] | None:
        if h.type is None:
            return None
        elts = h.type.elts if isinstance(h.type, ast.Tuple) else [h.type]
        out = []
        for e in elts:
            u = unparse(e)
            out.append(u if u in EXTERNAL_BASES else u.split(".")[-1])
        if "BaseException" in out:
            return None
        return out

    def _raised_class(self, e: ast.expr, fn: Func) -> str:
        x = e.func if isinstance(e, ast.Call) else e
        u = unparse(x)
        if u in EXTERNAL_BASES:
            return u
        if isinstance(x, ast.Name):
            if self.M.cls(x.id, required=False) is not None or isinstance(getattr(builtins, x.id, None), type):
                return x.id
        if isinstance(x, ast.Attribute) and (self.M.cls(x.attr, required=False) is not None):
            return x.attr
        if isinstance(x, ast.Name):
            defs = self.R.scope(fn).defs.get(x.id, [])
            got = {self._raised_class(d, fn) for d in defs if isinstance(d, ast.Call)}
            if len(got) == 1:
                return got.pop()
        t = self.R.type_of(e, self.R.scope(fn))
        if isinstance(t, str) and (self.M.cls(t, required=False) is not None or isinstance(getattr(builtins, t, None), type)):
            return t
        if isinstance(t, tuple) and t[0] == "type" and isinstance(t[1], str):
            return t[1]
        return "Exception"

    # ------------------------------------------------------------------ expressions
    def _expr(self, e: ast.AST, fn: Func) -> list[Esc]:
        out: list[Esc] = []
        for n in sub_nodes(e):
            if isinstance(n, ast.Call):
                out.extend(self._call(n, fn))
            elif isinstance(n, ast.Subscript) and isinstance(n.ctx, ast.Load):
                out.extend(self._subscript(n, fn))
            elif isinstance(n, ast.BinOp) and isinstance(n.op, (ast.Div, ast.FloorDiv, ast.Mod)):
                out.extend(self._division(n, fn))
            elif isinstance(n, (ast.ListComp, ast.SetComp, ast.GeneratorExp, ast.DictComp)):
                for g in n.generators:
                    out.extend(self._iter_protocol(g.iter, fn))
            if isinstance(n, (ast.BinOp, ast.UnaryOp, ast.Compare, ast.Attribute, ast.Subscript, ast.Call)):
                ik = id(n)
                if ik not in self._imp_cache:
                    self._imp_cache[ik] = self.R.implicit_calls(n, fn)
                for node, f in self._imp_cache[ik]:
                    out.extend(self._bind_callee(f, None, fn, node))
        return out

    def _iter_protocol(self, it: ast.expr, fn: Func) -> list[Esc]:
        t = self.R.type_of(it, self.R.scope(fn))
        out: list[Esc] = []
        if isinstance(t, str):
            c = self.M.cls(t, required=False)
            if c is not None:
                for nm in ("__iter__", "__next__"):
                    f = self.M.find_method(c, nm)
                    if f is not None:
                        out.extend(e.via(fn.qual) for e in self._callee(f).values())
        return out

    def _bind_callee(self, g: Func, call: ast.Call | None, fn: Func, node: ast.AST) -> list[Esc]:
        out: list[Esc] = []
        binding: dict[str, ast.expr] | None = None
        for e in self._callee(g).values():
            if not (e.cond and len(e.cond) == 3 and e.cond[2] == g.qual):
                out.append(e.via(fn.qual))
                continue
            kind, pname = e.cond[0], e.cond[1]
            arg: ast.expr | None = None
            if call is not None:
                if binding is None:
                    try:
                        binding = bind_args(call, g)
                    except Exception:
                        binding = {}
                arg = binding.get(pname)
            if arg is None:
                arg = g.default_of(pname)
            if arg is not None:
                v = self._fold(arg, fn)
                if kind == "nonzero" and isinstance(v, (int, float)) and not isinstance(v, bool) and v != 0:
                    self.discharged[(e.exc, e.fn, e.what + f" @ {fn.qual}")] = f"divisor bound to non-zero constant {v}"
                    continue
                if kind == "fmt" and isinstance(v, str):
                    self.discharged[(e.exc, e.fn, e.what + f" @ {fn.qual}")] = "format string bound to a constant (arity checked by the message-format rule)"
                    continue
                if isinstance(arg, ast.Name):
                    owner: Func | None = fn
                    hit = None
                    while owner is not None:
                        if arg.id in {a.arg for a in owner.params}:
                            hit = owner
                            break
                        owner = owner.parent
                    if hit is not None:
                        out.append(Esc(e.exc, e.fn, e.what, e.loc, e.kind, (kind, arg.id, hit.qual), (fn.qual, *e.chain)))
                        continue
            out.append(Esc(e.exc, e.fn, e.what, e.loc, e.kind, (), (fn.qual, *e.chain)))
        return out

    def _fold(self, e: ast.expr, fn: Func) -> Any:
        try:
            return self.M.fold(e, fn.cls, fn.mod)
        except Exception:
            return UNKNOWN

    # ------------------------------------------------------------------ calls
    def _call(self, call: ast.Call, fn: Func) -> list[Esc]:
        self.calls_seen += 1
        out: list[Esc] = []
        targets: list[Func] | None = None
        how = "resolved"
        ck = id(call)
        if ck in self._tg_cache:
            targets, how = self._tg_cache[ck]
        else:
            if self.cfg.indirect is not None:
                targets = self.cfg.indirect(call, fn)
            if targets is None and isinstance(call.func, ast.Name):
                owner: Func | None = fn
                while owner is not None:
                    if len(owner.nested_all.get(call.func.id, [])) > 1:
                        targets = list(owner.nested_all[call.func.id])  # same name defined in several branches
                        break
                    owner = owner.parent
            if targets is None:
                targets, how = self.R.callees(call, fn, count=False)
                if how in ("external", "unresolved") or (how == "fallback" and isinstance(call.func, ast.Name)):
                    ind = self.resolve_callable(call.func, fn, 0, set())
                    if ind is not None:
                        targets, how = ind, "resolved"
            if how == "fallback":
                # name-based over-approximation: keep only when unique, otherwise try receiver hints
                targets = self._narrow_fallback(call, fn, targets or [])
            self._tg_cache[ck] = (targets, how)
        if targets:
            for g in targets:
                out.extend(self._bind_callee(g, call, fn, call))
        if how in ("external", "unresolved") or not targets:
            out.extend(self._library(call, fn, how))
        return out

    def _narrow_fallback(self, call: ast.Call, fn: Func, targets: list[Func]) -> list[Func]:
        if len(targets) <= 1:
            return targets
        # receiver is an un-annotated lambda/closure parameter: pick by arity
        n = len(call.args) + len(call.keywords)
        fit = [t for t in targets if len([p for p in t.value_params if t.default_of(p.arg) is None]) <= n <= len(t.value_params)]
        return fit or targets

    # -- indirect calls ----------------------------------------------------------------------
    def callsites(self) -> dict[int, list[tuple[Func, ast.Call]]]:
        if self._callsites is None:
            cs: dict[int, list[tuple[Func, ast.Call]]] = {}
            for f in list(self.M.funcs.values()):
                for n in own_nodes(f.node) if not isinstance(f.node, ast.Lambda) else sub_nodes(f.node.body):
                    if isinstance(n, ast.Call):
                        tg, _ = self.R.callees(n, f, count=False)
                        for t in tg:
                            cs.setdefault(id(t), []).append((f, n))
            # calls in class-level initialisers (handler tables built from factory calls)
            for c in self.M.all_classes():
                for attr, val in c.assigns.items():
                    h = self.classbody_holder(c, attr, val)
                    for n in ast.walk(val):
                        if isinstance(n, ast.Lambda):
                            continue
                        if isinstance(n, ast.Call) and self.M.func_of_node.get(id(n)) is None:
                            if self._inside_lambda(n, val):
                                continue
                            tg, _ = self.R.callees(n, h, count=False)
                            for t in tg:
                                cs.setdefault(id(t), []).append((h, n))
            self._callsites = cs
        return self._callsites

    _holders: dict[tuple[int, str], Func] = {}

    def classbody_holder(self, c: Cls, attr: str, val: ast.expr) -> Func:
        k = (id(c), attr)
        if k not in self._holders:
            self._holders[k] = Func("<classbody>", c.qual + ".<classbody>", c.mod, ast.Lambda(args=ast.arguments(posonlyargs=[], args=[], kwonlyargs=[], kw_defaults=[], defaults=[]), body=val, lineno=getattr(val, "lineno", 1), col_offset=0), c, None, set(), "function")
        return self._holders[k]

    @staticmethod
    def _inside_lambda(n: ast.AST, root: ast.AST) -> bool:
        cur = getattr(n, "_parent", None)
        while cur is not None and cur is not root:
            if isinstance(cur, ast.Lambda):
                return True
            cur = getattr(cur, "_parent", None)
        return False

    def resolve_callable(self, e: ast.expr, fn: Func, depth: int, seen: set) -> list[Func] | None:
        """Functions that may flow to the callable expression `e` evaluated in fn; None when unknown."""
        if depth > 8:
            return None
        M = self.M
        if isinstance(e, ast.Lambda):
            f = M.func_of_node.get(id(e))
            return [f] if f is not None else None
        if isinstance(e, ast.Constant) and e.value is None:
            return []
        if isinstance(e, ast.IfExp):
            a = self.resolve_callable(e.body, fn, depth + 1, seen)
            b = self.resolve_callable(e.orelse, fn, depth + 1, seen)
            return None if a is None or b is None else a + b
        if isinstance(e, ast.NamedExpr):
            return self.resolve_callable(e.value, fn, depth + 1, seen)
        if isinstance(e, ast.Name):
            owner: Func | None = fn
            while owner is not None:
                if e.id in owner.nested:
                    return list(owner.nested_all.get(e.id) or [owner.nested[e.id]])
                if e.id in {a.arg for a in owner.params}:
                    return self._param_bindings(owner, e.id, depth, seen)
                defs = self.R.scope(owner).defs.get(e.id)
                if defs:
                    out: list[Func] = []
                    for d in defs:
                        r = self.resolve_callable(d, owner, depth + 1, seen)
                        if r is None:
                            return None
                        out.extend(r)
                    return out
                it = self._loop_iter_of(e.id, owner)
                if it is not None:
                    return self._collection_elems(it, owner, depth + 1, seen)
                owner = owner.parent
            t = self.R.type_of(e, self.R.scope(fn))
            if isinstance(t, tuple) and t[0] in ("func", "bound"):
                return [t[1]]
            return None
        if isinstance(e, ast.Attribute):
            t = self.R.type_of(e, self.R.scope(fn))
            if isinstance(t, tuple) and t[0] in ("func", "bound"):
                f = t[1]
                return [f] + (M.overrides(f) if t[0] == "bound" and not t[3] else [])
            vals = self._field_values(e, fn)
            if vals is not None:
                out = []
                for owner_fn, v in vals:
                    r = self.resolve_callable(v, owner_fn, depth + 1, seen)
                    if r is None:
                        return None
                    out.extend(r)
                return out
            return None
        if isinstance(e, ast.Call) and isinstance(e.func, ast.Attribute) and e.func.attr == "get" or isinstance(e, ast.Subscript):
            table = e.func.value if isinstance(e, ast.Call) else e.value
            return self._table_values(table, fn, depth, seen)
        if isinstance(e, ast.Call):
            # functools.partial(f, ...) / factory returning a nested closure
            tg, how = self.R.callees(e, fn, count=False)
            out = []
            for t in tg:
                rets = [n.value for n in own_nodes(t.node) if isinstance(n, ast.Return) and n.value is not None] if not isinstance(t.node, ast.Lambda) else [t.node.body]
                for rv in rets:
                    r = self.resolve_callable(rv, t, depth + 1, seen)
                    if r is None:
                        return None
                    out.extend(r)
            return out if tg else None
        return None

    def _loop_iter_of(self, name: str, fn: Func) -> ast.expr | None:
        """Iterable of the `for name in <iter>` loop (or comprehension) binding `name` in fn."""
        if isinstance(fn.node, ast.Lambda):
            return None
        for n in own_nodes(fn.node):
            if isinstance(n, (ast.For, ast.comprehension)) and isinstance(n.target, ast.Name) and n.target.id == name:
                return n.iter
        return None

    def _collection_elems(self, coll: ast.expr, fn: Func, depth: int, seen: set) -> list[Func] | None:
        """Callables stored as elements of the list-valued expression `coll` (literal elements and .append(x) / += [x])."""
        if depth > 10:
            return None
        if isinstance(coll, (ast.List, ast.Tuple)):
            return self._table_values(coll, fn, depth, seen)
        if isinstance(coll, ast.Name):
            owner: Func | None = fn
            while owner is not None:
                if coll.id in {a.arg for a in owner.params}:
                    key = (id(owner), coll.id, "elems")
                    if key in seen:
                        return []
                    seen = seen | {key}
                    out: list[Func] = []
                    sites = self.callsites().get(id(owner), [])
                    if not sites:
                        return None
                    for caller, call in sites:
                        try:
                            b = bind_args(call, owner)
                        except Exception:
                            return None
                        arg = b.get(coll.id)
                        if arg is None:
                            continue
                        r = self._collection_elems(arg, caller, depth + 1, seen)
                        if r is None:
                            return None
                        out.extend(r)
                    return out
                defs = self.R.scope(owner).defs.get(coll.id)
                if defs:
                    out = []
                    for d in defs:
                        r = self._collection_elems(d, owner, depth + 1, seen)
                        if r is None:
                            return None
                        out.extend(r)
                    out.extend(self._appended(coll.id, None, owner, depth, seen) or [])
                    return out
                owner = owner.parent
            return None
        if isinstance(coll, ast.IfExp):
            a = self._collection_elems(coll.body, fn, depth + 1, seen)
            b = self._collection_elems(coll.orelse, fn, depth + 1, seen)
            return None if a is None or b is None else a + b
        if isinstance(coll, ast.Constant) and coll.value is None:
            return []
        if isinstance(coll, ast.Attribute):
            key = ("field-elems", unparse(coll), fn.cls.name if fn.cls else "")
            if key in seen:
                return []
            seen = seen | {key}
            vals = self._field_values(coll, fn)
            if vals is None:
                return None
            out = []
            for owner_fn, v in vals:
                r = self._collection_elems(v, owner_fn, depth + 1, seen)
                if r is None:
                    return None
                out.extend(r)
            app = self._appended(None, coll, fn, depth, seen)
            if app is None:
                return None
            out.extend(app)
            return out
        if isinstance(coll, ast.Call) and isinstance(coll.func, ast.Name) and coll.func.id in ("list", "tuple", "sorted", "reversed") and coll.args:
            return self._collection_elems(coll.args[0], fn, depth + 1, seen)
        return None

    def _appended(self, local: str | None, field_expr: ast.Attribute | None, fn: Func, depth: int, seen: set) -> list[Func] | None:
        """Callables appended to a local list / to the field `recv.attr` anywhere in the receiver's class."""
        out: list[Func] = []
        scopes: list[Func] = []
        mattr = None
        if local is not None:
            scopes = [fn]
        else:
            assert field_expr is not None
            rt = self.R.type_of(field_expr.value, self.R.scope(fn))
            cname = rt if isinstance(rt, str) else rt[1] if isinstance(rt, tuple) and rt[0] == "type" and isinstance(rt[1], str) else None
            c = self.M.cls(cname, required=False) if cname else None
            if c is None:
                return None
            mattr = mangle(self.M.mangling_class(field_expr), field_expr.attr)
            for k in self.M.mro(c):
                scopes.extend(f for f in k.all_defs if not isinstance(f.node, ast.Lambda))
        for f in scopes:
            for n in own_nodes(f.node):
                if isinstance(n, ast.Call) and isinstance(n.func, ast.Attribute) and n.func.attr in ("append", "insert", "extend") and n.args:
                    tgt = n.func.value
                    hit = (local is not None and isinstance(tgt, ast.Name) and tgt.id == local) or (
                        mattr is not None and isinstance(tgt, ast.Attribute) and isinstance(tgt.value, ast.Name) and tgt.value.id == f.self_name and f.cls is not None and mangle(f.cls.name, tgt.attr) == mattr)
                    if hit:
                        arg = n.args[-1]
                        r = self.resolve_callable(arg, f, depth + 1, seen) if n.func.attr != "extend" else self._collection_elems(arg, f, depth + 1, seen)
                        if r is None:
                            return None
                        out.extend(r)
        return out

    def _param_bindings(self, owner: Func, pname: str, depth: int, seen: set) -> list[Func] | None:
        key = (id(owner), pname)
        if key in seen:
            return []
        seen = seen | {key}
        out: list[Func] = []
        sites = self.callsites().get(id(owner), [])
        # constructors: calls of the class reach __init__
        if not sites and owner.name == "__init__" and owner.cls is not None:
            sites = self.callsites().get(id(owner), [])
        if not sites:
            d = owner.default_of(pname)
            return self.resolve_callable(d, owner, depth + 1, seen) if d is not None else None
        for caller, call in sites:
            try:
                b = bind_args(call, owner)
            except Exception:
                return None
            arg = b.get(pname)
            if arg is None:
                arg = owner.default_of(pname)
                if arg is None:
                    continue
                r = self.resolve_callable(arg, owner, depth + 1, seen)
            else:
                r = self.resolve_callable(arg, caller, depth + 1, seen)
            if r is None:
                return None
            out.extend(r)
        return out

    def _field_values(self, e: ast.Attribute, fn: Func) -> list[tuple[Func, ast.expr]] | None:
        """Values stored into the attribute `recv.attr` anywhere in the receiver's class (class-level or via self.attr = ...)."""
        M = self.M
        rt = self.R.type_of(e.value, self.R.scope(fn))
        cname = rt if isinstance(rt, str) else rt[1] if isinstance(rt, tuple) and rt[0] == "type" and isinstance(rt[1], str) else None
        c = M.cls(cname, required=False) if cname else None
        if c is None:
            return None
        mcls = M.mangling_class(e)
        mattr = mangle(mcls, e.attr)
        out: list[tuple[Func, ast.expr]] = []
        for k in M.mro(c):
            if mattr in k.assigns:
                holder = Func("<classbody>", k.qual + ".<classbody>", k.mod, ast.Lambda(args=ast.arguments(posonlyargs=[], args=[], kwonlyargs=[], kw_defaults=[], defaults=[]), body=k.assigns[mattr], lineno=getattr(k.assigns[mattr], "lineno", 1), col_offset=0), k, None, set(), "function")
                out.append((holder, k.assigns[mattr]))
            for f in k.all_defs:
                if isinstance(f.node, ast.Lambda):
                    continue
                for n in own_nodes(f.node):
                    if isinstance(n, (ast.Assign, ast.AnnAssign)) and n.value is not None:
                        tgs = n.targets if isinstance(n, ast.Assign) else [n.target]
                        for tg in tgs:
                            if isinstance(tg, ast.Attribute) and isinstance(tg.value, ast.Name) and tg.value.id == f.self_name and mangle(k.name, tg.attr) == mattr:
                                out.append((f, n.value))
        return out or None

    def _table_values(self, table: ast.expr, fn: Func, depth: int, seen: set) -> list[Func] | None:
        """Callables stored as values of the dict/list expression `table`."""
        if isinstance(table, ast.Dict):
            out: list[Func] = []
            for v in table.values:
                r = self.resolve_callable(v, fn, depth + 1, seen)
                if r is None:
                    return None
                out.extend(r)
            return out
        if isinstance(table, (ast.List, ast.Tuple)):
            out = []
            for v in table.elts:
                r = self.resolve_callable(v, fn, depth + 1, seen)
                if r is None:
                    return None
                out.extend(r)
            return out
        if isinstance(table, ast.Name):
            owner: Func | None = fn
            while owner is not None:
                if table.id in {a.arg for a in owner.params}:
                    return self._param_tables(owner, table.id, depth, seen)
                defs = self.R.scope(owner).defs.get(table.id)
                if defs:
                    out = []
                    for d in defs:
                        r = self._table_values(d, owner, depth + 1, seen)
                        if r is None:
                            return None
                        out.extend(r)
                    return out
                owner = owner.parent
            return None
        if isinstance(table, ast.Attribute):
            vals = self._field_values(table, fn)
            if vals is None:
                return None
            out = []
            for owner_fn, v in vals:
                r = self._table_values(v, owner_fn, depth + 1, seen)
                if r is None:
                    return None
                out.extend(r)
            return out
        if isinstance(table, ast.Call) and isinstance(table.func, ast.Name) and table.func.id in ("dict", "MappingProxyType") and table.args:
            return self._table_values(table.args[0], fn, depth + 1, seen)
        if isinstance(table, ast.Call) and isinstance(table.func, ast.Attribute) and table.func.attr == "MappingProxyType" and table.args:
            return self._table_values(table.args[0], fn, depth + 1, seen)
        return None

    def _param_tables(self, owner: Func, pname: str, depth: int, seen: set) -> list[Func] | None:
        key = (id(owner), pname, "table")
        if key in seen:
            return []
        seen = seen | {key}
        out: list[Func] = []
        sites = self.callsites().get(id(owner), [])
        if not sites:
            return None
        for caller, call in sites:
            try:
                b = bind_args(call, owner)
            except Exception:
                return None
            arg = b.get(pname)
            if arg is None:
                continue
            r = self._table_values(arg, caller, depth + 1, seen)
            if r is None:
                return None
            out.extend(r)
        return out

    # -- library model -------------------------------------------------------------------------
    def _op(self, exc: str, node: ast.AST, fn: Func, what: str | None = None, cond: tuple[str, ...] = ()) -> list[Esc]:
        self.ops_seen += 1
        if self.cfg.discharge is not None:
            why = self.cfg.discharge(exc, node, fn)
            if why:
                self.discharged[(exc, fn.qual, what or unparse(node)[:100])] = why
                return []
        return [Esc(exc, fn.qual, (what or unparse(node))[:140], self.ctx.loc(fn, node), "op", cond)]

    def _library(self, call: ast.Call, fn: Func, how: str) -> list[Esc]:
        fx = call.func
        sc = self.R.scope(fn)
        name = fx.id if isinstance(fx, ast.Name) else fx.attr if isinstance(fx, ast.Attribute) else None
        full = unparse(fx)
        out: list[Esc] = []
        ft = self.R.type_of(fx, sc)
        # Enum(value) / IntFlag(value)
        if isinstance(ft, tuple) and ft[0] == "type" and isinstance(ft[1], str):
            c = self.M.cls(ft[1], required=False)
            if c is not None and self._is_enum(c) and call.args:
                v = self._fold(call.args[0], fn)
                members = self._enum_values(c)
                if not (v is not UNKNOWN and v in members):
                    out.extend(self._op("ValueError", call, fn, f"{c.name}({unparse(call.args[0])}) enum lookup by value"))
            return out
        if name is None:
            return out
        at = [self.R.type_of(a, sc) for a in call.args]
        if isinstance(fx, ast.Name):
            if name == "int" and call.args:
                if at[0] not in ("int", "bool", "float"):
                    if at[0] == "str" or at[0] is None:
                        a0 = unparse(call.args[0])
                        fa = self.facts(call, fn)
                        if ("'0'", "<=", a0) in fa and (a0, "<=", "'9'") in fa:
                            self.ops_seen += 1
                            self.discharged[("ValueError", fn.qual, unparse(call)[:100])] = f"dominated by the ASCII digit test '0' <= {a0} <= '9'"
                        else:
                            out.extend(self._op("ValueError", call, fn))
            elif name == "float" and call.args and at[0] in ("str", None):
                out.extend(self._op("ValueError", call, fn))
            elif name == "next" and len(call.args) == 1:
                out.extend(self._op("StopIteration", call, fn))
            elif name in ("exec", "eval") and call.args:
                src = self._fold(call.args[0], fn)
                cls = "Exception"
                if isinstance(src, str):
                    try:
                        for sn in ast.walk(ast.parse(src)):
                            if isinstance(sn, ast.Raise) and sn.exc is not None:
                                cls = unparse(sn.exc.func if isinstance(sn.exc, ast.Call) else sn.exc).split(".")[-1]
                    except SyntaxError:
                        cls = "SyntaxError"
                out.extend(self._op(cls, call, fn, f"{name}({unparse(call.args[0])[:60]}) runs dynamic code"))
            elif name == "chr" and call.args:
                v = self._fold(call.args[0], fn)
                if not (isinstance(v, int) and 0 <= v < 0x110000):
                    out.extend(self._op("ValueError", call, fn))
            elif name == "getattr" and len(call.args) == 2:
                out.extend(self._op("AttributeError", call, fn))
            elif name in ("divmod",) and len(call.args) == 2:
                out.extend(self._division(ast.BinOp(left=call.args[0], op=ast.FloorDiv(), right=call.args[1]), fn, node=call))
            elif name in ("Decimal",):
                out.extend(self._op("decimal.InvalidOperation", call, fn))
            elif name in ("datetime", "date", "time", "timedelta") and (name in fn.mod.imports or name in sc.local_imports):
                out.extend(self._op("ValueError", call, fn))
                out.extend(self._op("OverflowError", call, fn))
            elif how == "unresolved" and name not in sc.vars:
                self.unresolved[(fn.qual, unparse(call)[:100])] = self.ctx.loc(fn, call)
            elif how == "external" and name in sc.vars or how == "unresolved":
                # a callable value we could not resolve
                if not isinstance(getattr(builtins, name, None), type) and not callable(getattr(builtins, name, None)):
                    self.unresolved[(fn.qual, unparse(call)[:100])] = self.ctx.loc(fn, call)
            return out
        # attribute calls
        rt = self.R.type_of(fx.value, sc)
        if full in ("struct.unpack", "struct.unpack_from", "struct.pack"):
            out.extend(self._op("struct.error", call, fn))
        elif name == "decode" and rt in (None, "bytes", "bytearray"):
            out.extend(self._op("UnicodeDecodeError", call, fn))
        elif name == "encode" and rt in (None, "str"):
            pass  # str.encode() to utf-8 raises only for lone surrogates
        elif name == "format" and (rt == "str" or isinstance(fx.value, ast.Constant) or rt is None):
            out.extend(self._format_call(call, fn))
        elif name in ("index",) and (rt in ("str", "bytes") or isinstance(rt, tuple) and rt[0] in ("list", "tuple")):
            out.extend(self._op("ValueError", call, fn))
        elif name == "remove" and isinstance(rt, tuple) and rt[0] in ("list", "set"):
            out.extend(self._op("ValueError" if rt[0] == "list" else "KeyError", call, fn))
        elif name == "pop" and isinstance(rt, tuple) and rt[0] == "list":
            out.extend(self._op("IndexError", call, fn))
        elif name == "pop" and isinstance(rt, tuple) and rt[0] == "dict" and len(call.args) == 1:
            out.extend(self._op("KeyError", call, fn))
        elif name == "quantize":
            out.extend(self._op("decimal.InvalidOperation", call, fn))
        elif full in ("math.pow", "math.sqrt", "math.log", "math.log10"):
            out.extend(self._op("ValueError", call, fn))
        elif isinstance(fx.value, ast.Name) and fx.value.id in ("datetime", "date", "time", "timedelta") and name not in ("now", "utcnow", "today"):
            out.extend(self._op("ValueError", call, fn))
            out.extend(self._op("OverflowError", call, fn))
        elif isinstance(fx.value, ast.Name) and fx.value.id == "icu" or full.startswith("icu."):
            out.extend(self._op("icu.ICUError", call, fn))
        elif how == "unresolved" or (how == "external" and rt is None and not (isinstance(fx.value, ast.Name) and (fx.value.id in fn.mod.imports or fx.value.id in sc.local_imports))):
            if name not in SAFE_EXTERNAL_METHODS:
                self.unresolved[(fn.qual, unparse(call)[:100])] = self.ctx.loc(fn, call)
        return out

    def _is_enum(self, c: Cls) -> bool:
        return any(self.M.is_subclass(c, b) for b in ("Enum", "IntEnum", "IntFlag", "Flag", "StrEnum"))

    def _enum_values(self, c: Cls) -> set[Any]:
        vals = set()
        for nm, v in c.assigns.items():
            try:
                x = self.M.fold(v, c, c.mod)
            except Exception:
                continue
            if x is not UNKNOWN and isinstance(x, (int, str)):
                vals.add(x)
        return vals

    def _format_call(self, call: ast.Call, fn: Func) -> list[Esc]:
        """str.format: a constant format string is checked against the supplied arguments; anything else may raise."""
        import string
        fx = call.func
        assert isinstance(fx, ast.Attribute)
        v = self._fold(fx.value, fn)
        if isinstance(v, str):
            try:
                fields = list(string.Formatter().parse(v))
            except ValueError:
                return self._op("ValueError", call, fn, f"malformed format string {v!r}")
            if any(isinstance(a, ast.Starred) for a in call.args) or any(k.arg is None for k in call.keywords):
                return []  # arity checked at the call sites by the message-format rule
            npos = len(call.args)
            kws = {k.arg for k in call.keywords}
            auto = 0
            for _, fname, _, _ in fields:
                if fname is None:
                    continue
                head = fname.split(".")[0].split("[")[0]
                if head == "":
                    idx = auto
                    auto += 1
                    if idx >= npos:
                        return self._op("IndexError", call, fn, f"format string {v!r} needs positional argument {idx}, call supplies {npos}")
                elif head.isdigit():
                    if int(head) >= npos:
                        return self._op("IndexError", call, fn, f"format string {v!r} needs positional argument {head}, call supplies {npos}")
                elif head not in kws:
                    return self._op("KeyError", call, fn, f"format string {v!r} needs keyword {head!r}")
            return []
        cond: tuple[str, ...] = ()
        if isinstance(fx.value, ast.Name):
            owner: Func | None = fn
            while owner is not None:
                if fx.value.id in {a.arg for a in owner.params}:
                    if not any(isinstance(t, ast.Name) and t.id == fx.value.id and isinstance(t.ctx, ast.Store) and t is not fx.value and not self._self_format(t) for t in own_nodes(owner.node)):
                        cond = ("fmt", fx.value.id, owner.qual)
                    elif all(self._self_format(t) for t in own_nodes(owner.node) if isinstance(t, ast.Name) and t.id == fx.value.id and isinstance(t.ctx, ast.Store)):
                        cond = ("fmt", fx.value.id, owner.qual)
                    break
                owner = owner.parent
        return self._op("ValueError", call, fn, f"{unparse(fx.value)[:60]}.format(...) on a non-constant format string (IndexError/KeyError/ValueError when it contains braces)", cond=cond)

    @staticmethod
    def _self_format(t: ast.Name) -> bool:
        """`m = m.format(...)`: the only re-binding of a format parameter that keeps it a format of itself."""
        par = getattr(t, "_parent", None)
        return isinstance(par, ast.Assign) and isinstance(par.value, ast.Call) and isinstance(par.value.func, ast.Attribute) and par.value.func.attr == "format" and isinstance(par.value.func.value, ast.Name) and par.value.func.value.id == t.id

    def _subscript(self, n: ast.Subscript, fn: Func) -> list[Esc]:
        if not self.cfg.model_subscripts or isinstance(n.slice, ast.Slice):
            return []
        sc = self.R.scope(fn)
        rt = self.R.type_of(n.value, sc)
        # generic aliases / typing: ParseResult[T], list[int] ...
        if isinstance(rt, tuple) and rt[0] == "type":
            return []
        if isinstance(n.value, ast.Name) and (n.value.id in ("list", "dict", "tuple", "set", "type", "Callable", "Sequence", "Mapping", "Final", "Generic", "Optional") or self.M.cls(n.value.id, required=False) is not None):
            return []
        if isinstance(rt, str) and rt not in ("str", "bytes", "bytearray") and self.M.cls(rt, required=False) is not None:
            k = self.M.cls(rt, required=False)
            if k is not None and self.M.find_method(k, "__getitem__") is not None and self.M.find_method(k, "length") is not None:
                # a text buffer of the compatibility layer (StringBuilder): indexing is list indexing; `buf[buf.length - 1]` needs a
                # non-empty buffer (index -1 on an empty one raises IndexError)
                base, idx = unparse(n.value), unparse(n.slice)
                facts = self.facts(n, fn)
                if idx.replace(" ", "") == f"{base}.length-1" and any(l == f"{base}.length" and ((op == ">" and r == "0") or (op == ">=" and r == "1") or (op == "!=" and r == "0")) for (l, op, r) in facts):
                    self.ops_seen += 1
                    self.discharged[("IndexError", fn.qual, unparse(n)[:100])] = f"dominated by {base}.length > 0"
                    return []
                return self._op("IndexError", n, fn)
            return []  # repo __getitem__: handled as implicit call
        kind = "KeyError" if isinstance(rt, tuple) and rt[0] == "dict" else "IndexError" if (isinstance(rt, tuple) and rt[0] in ("list", "tuple")) or rt in ("str", "bytes", "bytearray") else "LookupError"
        why = self._subscript_safe(n, fn, rt)
        if why:
            self.ops_seen += 1
            self.discharged[(kind, fn.qual, unparse(n)[:100])] = why
            return []
        return self._op(kind, n, fn)

    def facts(self, node: ast.AST, fn: Func) -> set[tuple[str, str, str]]:
        """facts_at(node) closed under unfolding of boolean properties of self (`self.has_more_characters` = its returned test)."""
        fa = set(facts_at(node))
        if fn.cls is None:
            return fa
        for (l, op, r) in list(fa):
            if op in ("truthy", "falsy") and l.startswith((fn.self_name or "self") + ".") and l.count(".") == 1:
                pf = self.M.find_method(fn.cls, mangle(fn.cls.name, l.split(".")[1]))
                if pf is not None and pf.kind == "property" and not isinstance(pf.node, ast.Lambda):
                    body = pf.body
                    if len(body) == 1 and isinstance(body[0], ast.Return) and body[0].value is not None and (pf.self_name or "self") == (fn.self_name or "self"):
                        fa |= atoms(body[0].value, op == "truthy")
        return fa

    def _len_equiv(self, e: str, base: str, fn: Func) -> bool:
        """`e` denotes len(base): literally, or `self.length` when base is `self.value` of a text cursor whose constructor
        stores the text and its length together (checked on the class)."""
        if e == f"len({base})":
            return True
        sn = fn.self_name or "self"
        if fn.cls is not None and e == f"{sn}.length" and base == f"{sn}.value":
            return self._cursor_length_invariant(fn.cls)
        return False

    _cli: dict[int, bool] = {}

    def _cursor_length_invariant(self, c: Cls) -> bool:
        if id(c) not in self._cli:
            ok = False
            for k in self.M.mro(c):
                init = k.methods.get("__init__")
                if init is None or isinstance(init.node, ast.Lambda):
                    continue
                st = {unparse(n.targets[0]): unparse(n.value) for n in own_nodes(init.node) if isinstance(n, ast.Assign) and len(n.targets) == 1}
                vfield = next((t for t, v in st.items() if v == "value"), None)
                lfield = next((t for t, v in st.items() if v == "len(value)"), None)
                if vfield and lfield:
                    # the properties return those fields, and nothing else stores them
                    pv, pl = k.methods.get("value"), k.methods.get("length")
                    rets = lambda f: [unparse(n.value) for n in own_nodes(f.node) if isinstance(n, ast.Return) and n.value is not None] if f is not None else []
                    stores = [unparse(t) for f2 in k.all_defs if not isinstance(f2.node, ast.Lambda) and f2.name != "__init__" for n in own_nodes(f2.node) if isinstance(n, (ast.Assign, ast.AugAssign, ast.AnnAssign)) for t in (n.targets if isinstance(n, ast.Assign) else [n.target])]
                    ok = rets(pv) == [vfield] and rets(pl) == [lfield] and vfield not in stores and lfield not in stores
                    break
            self._cli[id(c)] = ok
        return self._cli[id(c)]

    def _upper_bounded(self, idx: str, base: str, n: ast.AST, fn: Func, facts: set[tuple[str, str, str]], depth: int = 0) -> str | None:
        """idx < len(base) follows from the facts (directly, or through a bound variable defined as min(..., len, ...))."""
        for (l, op, r) in facts:
            if l != idx or op not in ("<", "<="):
                continue
            if op == "<" and self._len_equiv(r, base, fn):
                return f"{idx} < {r}"
            if op == "<" and depth < 2 and r.isidentifier():
                defs = sorted(self.R.scope(fn).defs.get(r, []), key=lambda d: (getattr(d, "lineno", 0), getattr(d, "col_offset", 0)))
                # the definition in force: the last one textually before the use
                defs = [d for d in defs if getattr(d, "lineno", 0) <= getattr(n, "lineno", 0)]
                if defs and self._min_with_len(defs[-1], base, fn):
                    return f"{idx} < {r} and {r} = {unparse(defs[-1])[:50]}"
        return None

    def _min_with_len(self, d: ast.expr, base: str, fn: Func) -> bool:
        return isinstance(d, ast.Call) and isinstance(d.func, ast.Name) and d.func.id == "min" and any(self._len_equiv(unparse(a), base, fn) for a in d.args)

    def _subscript_safe(self, n: ast.Subscript, fn: Func, rt: Any) -> str | None:
        base, idx = unparse(n.value), unparse(n.slice)
        facts = self.facts(n, fn)
        # `self.index` right after `self.__index = t`: the property returns the field just stored
        stmt: Any = n
        while stmt is not None and not isinstance(stmt, ast.stmt):
            stmt = getattr(stmt, "_parent", None)
        par = getattr(stmt, "_parent", None)
        blk = next((getattr(par, fld) for fld in ("body", "orelse", "finalbody") if isinstance(getattr(par, fld, None), list) and stmt in getattr(par, fld)), None) if par is not None else None
        if blk is not None and fn.cls is not None:
            i0 = blk.index(stmt)
            sn = fn.self_name or "self"
            for prev in reversed(blk[:i0]):
                if isinstance(prev, ast.Assign) and len(prev.targets) == 1 and isinstance(prev.targets[0], ast.Attribute) and unparse(prev.targets[0].value) == sn:
                    fld_name = mangle(fn.cls.name, prev.targets[0].attr)
                    for pname, pf in fn.cls.methods.items():
                        if pf.kind == "property" and not isinstance(pf.node, ast.Lambda) and len(pf.body) == 1 and isinstance(pf.body[0], ast.Return) and pf.body[0].value is not None and isinstance(pf.body[0].value, ast.Attribute) and mangle(fn.cls.name, pf.body[0].value.attr) == fld_name:
                            alias_from, alias_to = f"{sn}.{pname}", unparse(prev.value)
                            if alias_from in idx:
                                idx2 = idx.replace(alias_from, alias_to)
                                ub = self._upper_bounded(idx2, base, n, fn, facts)
                                if ub:
                                    return f"index is the value just stored ({alias_from} = {alias_to}); {ub}"
                    break
                if not isinstance(prev, (ast.Assign, ast.AnnAssign, ast.Expr)):
                    break
        ub = self._upper_bounded(idx, base, n, fn, facts)
        if ub:
            return f"dominated by {ub} (a negative index can only fail on an empty text)"
        # idx + k < len  <=>  fact (idx + k, <, len)
        for (l, op, r) in facts:
            if l == idx and op == "<" and self._len_equiv(r, base, fn):
                return f"dominated by {l} < {r}"
        iv = self._fold(n.slice, fn)
        # constant table with constant index
        tv = self._fold(n.value, fn)
        if tv is not UNKNOWN and isinstance(tv, (tuple, list, str, dict)) and iv is not UNKNOWN:
            try:
                tv[iv]
                return "constant container and index"
            except Exception:
                return None
        if isinstance(rt, tuple) and rt[0] == "tuple" and isinstance(iv, int) and -len(rt[1]) <= iv < len(rt[1]):
            return "fixed-arity tuple"
        if isinstance(n.value, ast.Call) and unparse(n.value.func) == "struct.unpack" and n.value.args and isinstance(iv, int):
            fmt = self._fold(n.value.args[0], fn)
            if isinstance(fmt, str):
                import struct
                try:
                    arity = len(struct.unpack(fmt, bytes(struct.calcsize(fmt))))
                    if -arity <= iv < arity:
                        return f"struct.unpack({fmt!r}) returns {arity} value(s)"
                except struct.error:
                    pass
        if isinstance(n.value, ast.Name):
            defs = self.R.scope(fn).defs.get(n.value.id, [])
            if defs and all(isinstance(d, ast.Call) and unparse(d.func).split(".")[-1] == "defaultdict" for d in defs):
                return "defaultdict creates missing keys"
        if isinstance(iv, int) and iv >= 0:
            if (base, "truthy", "") in facts and iv == 0:
                return f"dominated by non-emptiness test of {base}"
            for (l, op, r) in facts:
                if l == f"len({base})" and ((op == ">" and r.lstrip("-").isdigit() and int(r) >= iv) or (op == ">=" and r.isdigit() and int(r) > iv) or (op == "==" and r.isdigit() and int(r) > iv)):
                    return f"dominated by length test len({base}) {op} {r}"
        # index bounded by explicit comparisons
        upper = any(l == idx and op == "<" and r == f"len({base})" for (l, op, r) in facts)
        lower = any(l == idx and ((op == ">=" and r == "0") or (op == ">" and r == "-1")) for (l, op, r) in facts)
        if upper and lower:
            return f"dominated by 0 <= {idx} < len({base})"
        # membership guard for dict
        if any(l == idx and op == "in" and r == base for (l, op, r) in facts):
            return f"dominated by `{idx} in {base}`"
        # loop index over range(len(base)) / enumerate(base)
        cur: ast.AST | None = n
        while cur is not None:
            par = getattr(cur, "_parent", None)
            it = tg = None
            if isinstance(par, ast.For) and any(cur is s for s in par.body):
                it, tg = par.iter, par.target
            elif isinstance(par, (ast.ListComp, ast.GeneratorExp, ast.SetComp, ast.DictComp)):
                for g in par.generators:
                    if self._loop_covers(g.iter, g.target, base, idx):
                        return f"index ranges over the container ({unparse(g.iter)[:40]})"
            if it is not None and self._loop_covers(it, tg, base, idx):
                return f"index ranges over the container ({unparse(it)[:40]})"
            cur = par
        # dict keyed by every member of an enum, indexed by a value of that enum type
        if isinstance(rt, tuple) and rt[0] == "dict":
            kt = self.R.type_of(n.slice, self.R.scope(fn))
            if isinstance(kt, str):
                c = self.M.cls(kt, required=False)
                if c is not None and self._is_enum(c):
                    vals = self._table_keys(n.value, fn)
                    members = {m for m, v in c.assigns.items() if not m.startswith("_")}
                    if vals is not None and members and members <= vals:
                        return f"table keyed by every member of {c.name}"
        return None

    def _loop_covers(self, it: ast.expr, tg: ast.AST | None, base: str, idx: str) -> bool:
        u = unparse(it)
        if tg is None:
            return False
        t = unparse(tg)
        if u == f"range(len({base}))" and t == idx:
            return True
        if u.startswith(f"enumerate({base}") and isinstance(tg, ast.Tuple) and tg.elts and unparse(tg.elts[0]) == idx:
            return True
        if (u == base or u == f"{base}.keys()" or u == f"sorted({base})") and t == idx:
            return True  # for k in d: d[k]
        if u == f"{base}.items()" and isinstance(tg, ast.Tuple) and tg.elts and unparse(tg.elts[0]) == idx:
            return True
        return False

    def _table_keys(self, table: ast.expr, fn: Func) -> set[str] | None:
        vals: list[ast.expr] = []
        if isinstance(table, ast.Attribute):
            fv = self._field_values(table, fn)
            if fv is None:
                return None
            vals = [v for _, v in fv]
        elif isinstance(table, ast.Name):
            vals = self.R.scope(fn).defs.get(table.id, [])
        keys: set[str] = set()
        for v in vals:
            if isinstance(v, ast.Call) and v.args:
                v = v.args[0]
            if not isinstance(v, ast.Dict):
                return None
            for k in v.keys:
                if isinstance(k, ast.Attribute):
                    keys.add(k.attr)
        return keys

    def _division(self, n: ast.BinOp, fn: Func, node: ast.AST | None = None) -> list[Esc]:
        if not self.cfg.model_division:
            return []
        sc = self.R.scope(fn)
        lt = self.R.type_of(n.left, sc)
        if lt == "str" or isinstance(n.left, ast.Constant) and isinstance(n.left.value, str):
            return []  # printf-style formatting
        if isinstance(lt, str) and self.M.cls(lt, required=False) is not None:
            return []  # repo operator: implicit call
        v = self._fold(n.right, fn)
        if isinstance(v, (int, float)) and not isinstance(v, bool):
            if v != 0:
                return []
            return self._op("ZeroDivisionError", node or n, fn)
        d = unparse(n.right)
        facts = self.facts(node or n, fn)
        if any(l == d and ((op in (">", "!=") and r == "0") or (op == ">=" and r == "1")) for (l, op, r) in facts):
            return []
        cond: tuple[str, ...] = ()
        if isinstance(n.right, ast.Name) and n.right.id in {a.arg for a in fn.params}:
            cond = ("nonzero", n.right.id, fn.qual)
        return self._op("ZeroDivisionError", node or n, fn, cond=cond)


SAFE_EXTERNAL_METHODS = {
    # container / string / stream methods that do not raise on data
    "append", "extend", "get", "items", "keys", "values", "read", "write", "startswith", "endswith", "lower", "upper", "strip", "split", "join",
    "add", "update", "setdefault", "copy", "sort", "insert", "clear", "isdigit", "isalpha", "find", "rfind", "replace", "encode", "lstrip", "rstrip",
    "casefold", "seek", "tell", "close", "bit_length", "to_bytes", "is_integer", "total_seconds", "count", "discard", "union", "intersection",
    "isoformat", "__new__", "__init__", "__init_subclass__", "getvalue", "partition", "rpartition", "zfill", "rjust", "ljust", "title", "capitalize",
    "isspace", "isupper", "islower", "isalnum", "isascii", "isnumeric", "isdecimal", "splitlines", "center", "translate", "swapcase", "difference",
    "issubset", "issuperset", "add_note", "with_traceback", "popitem", "reverse", "acquire", "release", "locked", "flush", "readable", "writable", "fileno", "cache_clear",
}
