"""Thorough tier, part 2: sensitivity self-test of the property's rules.

After the rules held on /repo's working tree, the same rules are run on scratch copies of the tree (under the system temp
directory, removed afterwards) carrying one change each:

* every stored seeded change of the property (/verif/seeded/<id>-k/patch.diff: changes that were demonstrated to break the
  property while the test suite still passes) - the rules recorded in meta.json:detected_by must fire again;
* hand-written witnesses (WITNESSES below): one broken instance per rule, plus behaviour-preserving twins on which the check
  must stay silent (seeds neutralised by a later fix are kept as silent twins as well).

A witness whose anchor text no longer occurs in the tree (the code moved on) is skipped, never failed.  A witness that is
present but no longer detected - or a silent twin that raises an alarm - means the *checker* regressed: exit 2
(ANALYSIS-ERROR), never a VIOLATION of the property.
"""
from __future__ import annotations

import concurrent.futures as cf
import json
import os
import re
import shutil
import subprocess
import sys
import tempfile
from dataclasses import dataclass, field

HERE = os.path.dirname(os.path.dirname(os.path.abspath(__file__)))
SEEDED = os.path.join(HERE, "seeded")
EVID = os.path.join(HERE, "evidence")


@dataclass
class Witness:
    name: str
    edits: list[tuple[str, str, str]]  # (file relative to repo root, old text (must occur exactly once), new text)
    expect: tuple[str, ...] = ()  # rule ids, at least one must fire; empty = silent twin
    note: str = ""


W = Witness
WITNESSES: dict[str, list[Witness]] = {}


def _w(prop: str, *ws: Witness) -> None:
    WITNESSES.setdefault(prop, []).extend(ws)


_SD = "pyoda_time/time_zones/io/_tzdb_stream_data.py"
_RD = "pyoda_time/time_zones/io/_date_time_zone_reader.py"
_SF = "pyoda_time/time_zones/io/_tzdb_stream_field.py"
_SRC = "pyoda_time/time_zones/_tzdb_date_time_zone_source.py"

_w(
    "C20",
    W("boundary-narrowed", [(_SD, "        except Exception as e:\n            # Decoding damaged data fails in many places (enum lookups", "        except ValueError as e:\n            # Decoding damaged data fails in many places (enum lookups")], ("R20.1",),
      "create_zone converts only ValueError: KeyError/IndexError/OverflowError... escape again"),
    W("raise-outside-boundary", [(_SRC, "        return cls._ctor(_TzdbStreamData._from_stream(stream))\n\n    @classmethod\n    def _ctor", "        data = _TzdbStreamData._from_stream(stream)\n        if not data.tzdb_id_map:\n            raise ValueError(\"no zones\")\n        return cls._ctor(data)\n\n    @classmethod\n    def _ctor")], ("R20.1",),
      "a validation added after the conversion boundary raises a foreign type"),
    W("subscript-outside-boundary", [(_SRC, "        if (canonical_id := self.canonical_id_map.get(_Preconditions._check_not_null(id_, \"id_\"))) is None:\n            raise ValueError(f\"Time zone with ID {id_} not found in source {self.__version}\")", "        canonical_id = self.canonical_id_map[_Preconditions._check_not_null(id_, \"id_\")]")], ("R20.1",),
      "KeyError from an unguarded map lookup in for_id"),
    W("read-byte-zero-at-eof", [(_RD, "        if not value:\n            raise InvalidPyodaDataError(\"Unexpected end of data stream\")\n        return value[0]", "        if not value:\n            return 0\n        return value[0]")], ("R20.2",),
      "read_byte no longer consumes-or-raises: count-driven loops spin up to 2^31 times on a truncated stream"),
    W("varint-loop-ignores-eof", [(_SF, "                bytes_read: bytes = stream.read(1)\n                if not bytes_read:\n                    raise InvalidPyodaDataError(f\"Stream ended after reading {offset} bytes out of {length}\")\n                data.extend(bytes_read)", "                data.extend(stream.read(1))")], ("R20.2",),
      "field copy loop iterates `length` (untrusted, < 2^31) times after the stream ended"),
    W("sized-read-on-caller-stream", [(_SF, "            for offset in range(length):\n                bytes_read: bytes = stream.read(1)\n                if not bytes_read:\n                    raise InvalidPyodaDataError(f\"Stream ended after reading {offset} bytes out of {length}\")\n                data.extend(bytes_read)", "            data.extend(stream.read(length))\n            if len(data) != length:\n                raise InvalidPyodaDataError(f\"Stream ended after reading {len(data)} bytes out of {length}\")")], ("R20.3",),
      "read(length) on the caller's stream: a damaged length makes a raw file object allocate up to 2 GiB up front"),
    W("for-id-may-return-none", [(_SD, "                    case _:\n                        raise InvalidPyodaDataError(f\"Unknown time zone type {type_.name}\")", "                    case _:\n                        return None  # type: ignore[return-value]")], ("R20.1b",),
      "an unknown zone type yields None; DateTimeZoneCache then raises InvalidDateTimeZoneSourceError"),
    W("lookup-error-on-falsy", [(_SRC, "\"id_\"))) is None:", "\"id_\"))) in (None, \"\"):")], ("R20.1",),
      "for_id reports a present-but-empty canonical id as an unknown id (ValueError for an id get_ids() lists) - the defect D17"),
    W("twin-extract-helper", [(_RD, "        value: bytes = self.__input.read(1)\n        if not value:\n            raise InvalidPyodaDataError(\"Unexpected end of data stream\")\n        return value[0]", "        value: bytes = self.__input.read(1)\n        if not value:\n            raise InvalidPyodaDataError(\"Unexpected end of data stream: no more bytes\")\n        first = value[0]\n        return first")], (),
      "behaviour-preserving rewrite of read_byte"),
)


_VC = "pyoda_time/text/_value_cursor.py"
_SPB = "pyoda_time/text/patterns/_stepped_pattern_builder.py"
_PRS = "pyoda_time/text/_parse_result.py"
_LTP = "pyoda_time/text/_local_time_pattern_parser.py"
_OPP = "pyoda_time/text/_offset_pattern_parser.py"

_w(
    "C08",
    W("non-ascii-digit", [(_VC, '            if not digit.isdigit() or not "0" <= digit <= "9":', "            if not digit.isdigit():")], ("R08.1",),
      "int() of a non-ASCII digit such as a superscript two raises ValueError inside parse"),
    W("cursor-bound-dropped", [(_VC, "        max_index = min(self.length, max_index)\n", "")], ("R08.1",),
      "digit loop reads past the end of the text: IndexError inside parse"),
    W("raise-in-parse-action", [(_SPB, "                return ParseResult[TResult]._field_value_out_of_range(cursor, value, pattern_char, type_)", "                raise ValueError(f\"{pattern_char} out of range: {value}\")")], ("R08.1",),
      "a failure result replaced by an exception in the shared parse-value action"),
    W("handler-lookup-keyerror", [(_SPB, "            if handler := character_handlers.get(pattern_cursor.current):", "            if handler := character_handlers[pattern_cursor.current]:")], ("R08.2",),
      "pattern creation raises KeyError for any character without a handler"),
    W("message-arity", [(_PRS, "FIELD_VALUE_OUT_OF_RANGE, value, field, type_.__name__)\n\n    @classmethod\n    def _field_value_out_of_range_post_parse", "FIELD_VALUE_OUT_OF_RANGE, value, field)\n\n    @classmethod\n    def _field_value_out_of_range_post_parse")], ("R08.3",),
      "a three-placeholder message built with two arguments: IndexError while the failure result is built"),
    W("offset-guard-removed", [(_OPP, "        if seconds < Offset.min_value.seconds or seconds > Offset.max_value.seconds:", "        if False:")], ("R08.4",),
      "the defect D13 re-introduced: +19:00 raises out of parse"),
    W("hour-24-in-time-pattern", [(_LTP, "            2, _PatternFields.HOURS_24, 0, 23, hours_24_getter, hours_24_setter, LocalTime", "            2, _PatternFields.HOURS_24, 0, 24, hours_24_getter, hours_24_setter, LocalTime")], ("R08.4",),
      "LocalTime 'HH' accepts 24: the trusted constructor builds an invalid LocalTime"),
    W("value-read-before-success-test", [(_SPB, "            if not result.success:\n                return result.convert_error(type_)\n            parse_action(bucket, result.value)", "            parse_action(bucket, result.value)\n            if not result.success:\n                return result.convert_error(type_)")], ("R08.5",),
      "a failed embedded parse raises its error out of the outer parse"),
    W("twin-rename-local", [(_VC, "        max_index = local_index + maximum_digits\n        max_index = min(self.length, max_index)\n        while local_index < max_index:\n            digit = self.value[local_index]\n            if not digit.isdigit() or not \"0\" <= digit <= \"9\":", "        limit = local_index + maximum_digits\n        limit = min(self.length, limit)\n        while local_index < limit:\n            digit = self.value[local_index]\n            if not digit.isdigit() or not \"0\" <= digit <= \"9\":")], (),
      "behaviour-preserving rename in _parse_digits"),
)

_FH = "pyoda_time/text/_format_helper.py"
_LDP = "pyoda_time/text/_local_date_pattern.py"
_LTP2 = "pyoda_time/text/_local_time_pattern.py"
_IP = "pyoda_time/text/_instant_pattern.py"
_TPH = "pyoda_time/text/patterns/_time_pattern_helper.py"
_DPP = "pyoda_time/text/_duration_pattern_parser.py"

_w(
    "C07",
    W("format-action-dropped", [(_SPB, "        self._add_parse_action(parse_action)\n        self._add_format_action(format_action)\n\n    def add_negative_only_sign", "        self._add_parse_action(parse_action)\n\n    def add_negative_only_sign")], ("R07.1",),
      "required sign is parsed but never written"),
    W("swapped-getter", [(_LTP, "            2, _PatternFields.MINUTES, 0, 59, minutes_getter, minutes_setter, LocalTime", "            2, _PatternFields.MINUTES, 0, 59, seconds_getter, minutes_setter, LocalTime")], ("R07.2",),
      "'mm' formats the seconds but parses into the minutes"),
    W("fraction-scale-mismatch", [(_TPH, "                success, fractional_seconds = value_cursor._parse_fraction(\n                    count, max_count, count if pattern_character == \"f\" else 0\n                )", "                success, fractional_seconds = value_cursor._parse_fraction(\n                    count, count, count if pattern_character == \"f\" else 0\n                )")], ("R07.3",),
      "fraction parsed with scale = count but formatted with scale = max_count"),
    W("left-pad-sign-in-width", [(_FH, "        cls._left_pad_non_negative(-value, length, output_buffer)", "        output_buffer.length -= 1\n        output_buffer.append(f\"{value:0{length}d}\")")], ("R07.5",),
      "negative numbers padded with a width that counts the sign"),
    W("partial-hours-as-total", [(_DPP, "                selector=lambda duration: _csharp_modulo(\n                    _towards_zero_division(abs(duration.nanosecond_of_day), nanoseconds_per_unit), units_per_container\n                ),", "                selector=lambda duration: _towards_zero_division(duration.nanosecond_of_day, nanoseconds_per_unit),")], ("R07.5",),
      "'hh' of a duration formats a possibly negative / unreduced quantity with the 2-digit non-negative formatter"),
)

_w(
    "C17",
    W("iso-month-one-digit", [(_LDP, "create_with_invariant_culture(\"uuuu'-'MM'-'dd\")", "create_with_invariant_culture(\"uuuu'-'M'-'dd\")")], ("R17.1",), "ISO date pattern writes months without zero padding"),
    W("iso-12-hour", [(_LTP2, "create_with_invariant_culture(\"HH':'mm':'ss\")", "create_with_invariant_culture(\"hh':'mm':'ss\")")], ("R17.1",), "general ISO time uses the 12-hour field"),
    W("instant-without-z", [(_IP, "create_with_invariant_culture(\"uuuu-MM-ddTHH:mm:ss'Z'\")", "create_with_invariant_culture(\"uuuu-MM-ddTHH:mm:ss\")")], ("R17.1",), "general instant pattern loses the trailing Z"),
    W("twin-quote-literals", [(_IP, "create_with_invariant_culture(\"uuuu-MM-ddTHH:mm:ss'Z'\")", "create_with_invariant_culture(\"uuuu'-'MM'-'dd'T'HH:mm:ss'Z'\")")], (), "same pattern with the literals quoted"),
)

_w(
    "C02",
    W("coptic-epoch-shifted", [("pyoda_time/calendars/_coptic_year_month_day_calculator.py", "super().__init__(1, 9715, -615558)", "super().__init__(1, 9715, -615557)")], ("R02.1",), "every Coptic date one day late; self-consistent, so invisible to C01"),
    W("gregorian-century-rule", [("pyoda_time/calendars/_gregorian_year_month_day_calculator.py", "return ((year & 3) == 0) and ((year % 100) != 0 or (year % 400) == 0)", "return ((year & 3) == 0) and ((year % 100) != 0 or (year % 200) == 0)")], ("R02.2",), "1800 / 2200 become leap years"),
    W("islamic-pattern-bit", [("pyoda_time/calendars/_islamic_year_month_day_calculator.py", "return 623158436  # 0b100101001001001010010010100100", "return 623158420  # 0b100101001001001010010010010100")], ("R02.2",), "one leap year of the Base15 pattern moved"),
    W("weekday-anchor", [("pyoda_time/_calendar_system.py", "1 + _csharp_modulo(days_since_epoch + 3, 7)", "1 + _csharp_modulo(days_since_epoch + 4, 7)")], ("R02.4",), "1970-01-01 reported as a Friday"),
)

# ------------------------------------------------------------------------------------------- engine


def _copy_tree(repo: str) -> str:
    tmp = tempfile.mkdtemp(prefix="sa_selftest_")
    shutil.copytree(os.path.join(repo, "pyoda_time"), os.path.join(tmp, "pyoda_time"), ignore=shutil.ignore_patterns("__pycache__"))
    return tmp


def _run_check(prop: str, tmp: str) -> tuple[int, list[str], str]:
    env = dict(os.environ, PYTHONPATH=HERE)
    p = subprocess.run([sys.executable, "-m", "sa.run", "--property", prop, "--repo", tmp, "--no-write", "--tier", "quick"], cwd=HERE, capture_output=True, text=True, env=env)
    rules = sorted(set(re.findall(r"violation: (R[\w.\-]+)", p.stdout)))
    tail = " | ".join(l.strip()[:160] for l in p.stdout.splitlines() if l.startswith(("ANALYSIS", "  violation"))[:3]) if False else ""
    first = next((l.strip()[:200] for l in p.stdout.splitlines() if l.strip().startswith(("violation:", "ANALYSIS-ERROR"))), "")
    return p.returncode, rules, first


def run_witness(prop: str, w: Witness, repo: str) -> dict:
    for rel, old, _ in w.edits:
        path = os.path.join(repo, rel)
        if not os.path.exists(path) or open(path).read().count(old) != 1:
            return {"name": w.name, "status": "skipped", "why": f"anchor text not found exactly once in {rel}"}
    tmp = _copy_tree(repo)
    try:
        for rel, old, new in w.edits:
            path = os.path.join(tmp, rel)
            s = open(path).read()
            open(path, "w").write(s.replace(old, new))
            try:
                compile(open(path).read(), path, "exec")
            except SyntaxError as e:
                return {"name": w.name, "status": "broken-witness", "why": f"edited file does not compile: {e}"}
        rc, rules, first = _run_check(prop, tmp)
    finally:
        shutil.rmtree(tmp, ignore_errors=True)
    if w.expect:
        ok = rc == 1 and any(r in rules for r in w.expect)
        return {"name": w.name, "status": "caught" if ok else "MISSED", "expected": list(w.expect), "fired": rules, "exit": rc, "first": first, "note": w.note}
    ok = rc == 0
    return {"name": w.name, "status": "silent" if ok else "FALSE-ALARM", "fired": rules, "exit": rc, "first": first, "note": w.note}


def run_seed(prop: str, name: str, repo: str) -> dict:
    d = os.path.join(SEEDED, name)
    meta = json.load(open(os.path.join(d, "meta.json")))
    expect_silent = meta.get("expect") == "silent"
    expected = meta.get("detected_by") or []
    if not expect_silent and not expected:
        return {"name": name, "status": "not-decided", "why": "recorded as not detected by any rule (see DESIGN.md)"}
    tmp = _copy_tree(repo)
    try:
        r = subprocess.run(["patch", "-p1", "-s", "--no-backup-if-mismatch", "-i", os.path.join(d, "patch.diff")], cwd=tmp, capture_output=True, text=True)
        if r.returncode != 0:
            return {"name": name, "status": "skipped", "why": "stored patch no longer applies to this tree"}
        rc, rules, first = _run_check(prop, tmp)
    finally:
        shutil.rmtree(tmp, ignore_errors=True)
    if expect_silent:
        return {"name": name, "status": "silent" if rc == 0 else "FALSE-ALARM", "fired": rules, "exit": rc, "first": first, "note": meta.get("expect_reason", "")}
    ok = rc == 1 and any(x in rules for x in expected)
    return {"name": name, "status": "caught" if ok else "MISSED", "expected": expected, "fired": rules, "exit": rc, "first": first}


def run_for_property(prop: str, repo: str | None = None) -> int:
    repo = repo or os.environ.get("PYODA_REPO", "/repo")
    jobs = []
    seeds = []
    for n in sorted(os.listdir(SEEDED)) if os.path.isdir(SEEDED) else []:
        mp = os.path.join(SEEDED, n, "meta.json")
        if os.path.isfile(mp):
            m0 = json.load(open(mp))
            if (m0.get("run_property") or m0.get("property")) == prop:
                seeds.append(n)
    with cf.ThreadPoolExecutor(max_workers=min(16, os.cpu_count() or 4)) as ex:
        for s in seeds:
            jobs.append(ex.submit(run_seed, prop, s, repo))
        for w in WITNESSES.get(prop, []):
            jobs.append(ex.submit(run_witness, prop, w, repo))
        results = [j.result() for j in jobs]
    bad = [r for r in results if r["status"] in ("MISSED", "FALSE-ALARM", "broken-witness")]
    counts: dict[str, int] = {}
    for r in results:
        counts[r["status"]] = counts.get(r["status"], 0) + 1
    print(f"[{prop}] self-test on scratch copies: " + ", ".join(f"{k}={v}" for k, v in sorted(counts.items())))
    for r in results:
        line = f"  selftest {r['name']:34s} {r['status']:12s}"
        if r.get("fired"):
            line += " fired=" + ",".join(r["fired"])
        if r.get("why"):
            line += " (" + r["why"] + ")"
        print(line)
    # append to the evidence written by the rules run
    path = os.path.join(EVID, f"{prop}.json")
    if os.path.exists(path):
        ev = json.load(open(path))
        ev["coverage"]["selftest"] = {"summary": counts, "results": results,
                                      "explanation": "the same rules re-run on scratch copies carrying one seeded/witness change each; 'caught' = expected rule fired, 'silent' = behaviour-preserving twin raised no alarm"}
        json.dump(ev, open(path, "w"), indent=1, default=str)
    if bad:
        for r in bad:
            print(f"ANALYSIS-ERROR property={prop}: self-test {r['name']} -> {r['status']} (expected {r.get('expected', 'silent')}, fired {r.get('fired')}, exit {r.get('exit')}) {r.get('first', '')}")
        return 2
    return 0


if __name__ == "__main__":
    sys.exit(run_for_property(sys.argv[1], sys.argv[2] if len(sys.argv) > 2 else None))
